#!/usr/bin/env python3
"""Writes seeded/MUTATION_SWEEP.md from the results of tools/mutation_sweep.py and the hand triage
of the survivors in seeded/mutation_triage.json.
  tools/mutation_report.py /root/scratch/msweep/results.jsonl"""
import collections, json, os, sys
V = "/verif"
res = [json.loads(l) for l in open(sys.argv[1])]
tri = json.load(open(os.path.join(V, "seeded", "mutation_triage.json")))
c = collections.Counter(r["status"] for r in res)
out = ["# Operator-mutation sweep", "",
       "Produced by `tools/mutation_sweep.py` (single-token mutants of the crate's non-test source, applied to a scratch copy of",
       "the repository; every mutant the repository's own tests do not kill is handed to all 20 quick checks, run from a scratch",
       "copy of /verif with a quarter of the quick case budget) and `tools/mutation_report.py`. Not a registered check: a",
       "sensitivity measurement of the monitors.", "",
       "| outcome | mutants |", "|---|---|"]
for k in ("does-not-compile", "killed-by-tests", "tests-timeout", "detected", "survived-all"):
    out.append("| %s | %d |" % ({"does-not-compile": "does not compile", "killed-by-tests": "killed by the repository's own tests",
                                 "tests-timeout": "the repository's tests do not finish (4 min)", "detected": "suite green, reported by at least one quick check",
                                 "survived-all": "suite green, no check reports it"}[k], c.get(k, 0)))
out += ["| total | %d |" % len(res), ""]
per = collections.Counter()
for r in res:
    for p in r.get("detected_by", []):
        per[p] += 1
out += ["Mutants that pass the repository's tests and are reported, per check: " + ", ".join("%s %d" % kv for kv in sorted(per.items())), ""]
out += ["## Mutants that pass the repository's tests and are reported", "", "| file:line | mutant | reported by |", "|---|---|---|"]
for r in res:
    if r["status"] == "detected":
        out.append("| %s:%d | `%s` => `%s` | %s |" % (r["file"], r["line"], r["old"].replace("|", "\\|")[:90], r["new"].replace("|", "\\|")[:90], " ".join(r["detected_by"])))
out += ["", "## Survivors of every check, triaged by hand", "", "| file:line | mutant | triage |", "|---|---|---|"]
untriaged = 0
for r in res:
    if r["status"] == "survived-all":
        key = "%s:%d:%s" % (r["file"], r["line"], r["new"])
        t = tri.get(key)
        if t is None:
            untriaged += 1
            t = "NOT YET TRIAGED"
        out.append("| %s:%d | `%s` => `%s` | %s |" % (r["file"], r["line"], r["old"].replace("|", "\\|")[:90], r["new"].replace("|", "\\|")[:90], t))
open(os.path.join(V, "seeded", "MUTATION_SWEEP.md"), "w").write("\n".join(out) + "\n")
print(dict(c), "untriaged:", untriaged)
