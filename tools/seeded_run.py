#!/usr/bin/env python3
"""Apply each seeded change under /verif/seeded/<id>/patch.diff to /repo's working tree, run the
quick checks named in its meta.json (or all with --all), record which checks report a violation,
and undo the change straight afterwards (git -C /repo checkout -- .).

  tools/seeded_run.py [--all] [id ...]
Writes seeded/RESULTS.json."""
import json, os, subprocess, sys, time
V = "/verif"
def sh(cmd, **kw):
    return subprocess.run(cmd, shell=True, capture_output=True, text=True, **kw)
def clean():
    sh("git -C /repo checkout -- . && git -C /repo clean -fdq -- src tests")
def main():
    args = [a for a in sys.argv[1:] if not a.startswith("--")]
    run_all = "--all" in sys.argv
    ids = args or sorted(os.listdir(os.path.join(V, "seeded")))
    res_path = os.path.join(V, "seeded", "RESULTS.json")
    results = json.load(open(res_path)) if os.path.exists(res_path) else {}
    assert sh("git -C /repo status --porcelain").stdout.strip() == "", "/repo working tree must be clean"
    for sid in ids:
        d = os.path.join(V, "seeded", sid)
        if not os.path.isdir(d) or not os.path.exists(os.path.join(d, "patch.diff")):
            continue
        meta = json.load(open(os.path.join(d, "meta.json")))
        r = sh("git -C /repo apply %s" % os.path.join(d, "patch.diff"))
        if r.returncode != 0:
            print(sid, "PATCH DOES NOT APPLY", r.stderr[:300]); clean(); continue
        try:
            props = ["C%02d" % i for i in range(1, 21)] if run_all else meta.get("run_checks", [meta["property"]])
            out = {}
            for p in props:
                t = time.time()
                c = sh("./check %s quick" % p, cwd=V)
                viol = [l for l in c.stdout.splitlines() if l.startswith("VIOLATION")]
                sigs = []
                for l in viol:
                    try:
                        rp = json.load(open(l.split("replay=")[1]))
                        sigs.append(rp["signature"])
                    except Exception:
                        pass
                out[p] = dict(rc=c.returncode, violations=len(viol), signatures=sorted(set(sigs))[:6], wall_s=round(time.time() - t, 1))
                print(sid, p, "rc=%d" % c.returncode, sorted(set(sigs))[:3], flush=True)
            results[sid] = dict(breaks=meta["property"], detected_by=[p for p, o in out.items() if o["rc"] == 1], checks=out)
        finally:
            clean()
        json.dump(results, open(res_path, "w"), indent=1)
    assert sh("git -C /repo status --porcelain").stdout.strip() == "", "cleanup failed"
main()
