#!/usr/bin/env python3
"""Regenerates the table between <!-- SIZES-BEGIN --> and <!-- SIZES-END --> in DESIGN.md from
`dtrmon meta` (the monitors' own constants) and the enumerated prefixes used by ./check."""
import json, subprocess, re
V="/verif"
rows=["| property | quick cases / profile | thorough cases / profile | floor: distinct non-trivial cases below which a run counts as having observed too little (min with cases/25) | level |","|---|---|---|---|---|"]
for i in range(1,21):
    p="C%02d"%i
    m=json.loads(subprocess.run([V+"/harness/target/debug/dtrmon","meta","--prop",p],capture_output=True,text=True).stdout)
    rows.append("| %s | %s | %s | %s | %s |" % (p, format(m["quick_cases"],","), format(m["thorough_cases"],","), format(m["floor"],","), m["level"]))
s=open(V+"/DESIGN.md").read()
a=s.index("<!-- SIZES-BEGIN -->")+len("<!-- SIZES-BEGIN -->"); b=s.index("<!-- SIZES-END -->")
s=s[:a]+"\n"+"\n".join(rows)+"\n"+s[b:]
open(V+"/DESIGN.md","w").write(s)
print("\n".join(rows))
