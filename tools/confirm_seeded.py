#!/usr/bin/env python3
"""Confirm seeded changes in a scratch worktree of /repo (outside /repo and /verif):
with the patch: crate builds and the existing tests pass, the demo fails;
without the patch: the demo passes. Updates seeded/<id>/meta.json. Removes the worktree."""
import json, os, subprocess, sys
V="/verif"; WT="/tmp/cf-seeded"
def sh(c, cwd=WT):
    return subprocess.run(c, shell=True, capture_output=True, text=True, cwd=cwd, env=dict(os.environ, CARGO_NET_OFFLINE="true"))
def counts(out):
    ok=sum(int(l.split("ok. ")[1].split(" passed")[0]) for l in out.splitlines() if l.startswith("test result: ok."))
    bad=[l for l in out.splitlines() if l.startswith("test result: FAILED")]
    return ok,bad
ids=sys.argv[1:]
sh("git worktree remove --force %s; git worktree add -q %s HEAD" % (WT,WT), cwd="/repo")
try:
    for sid in ids:
        d=os.path.join(V,"seeded",sid)
        meta_p=os.path.join(d,"meta.json")
        meta=json.load(open(meta_p)) if os.path.exists(meta_p) else {}
        sh("git checkout -- . && rm -f tests/seeded_demo.rs")
        r=sh("git apply %s/patch.diff" % d)
        assert r.returncode==0, r.stderr
        t=sh("cargo test --workspace --no-fail-fast --offline 2>&1")
        ok,bad=counts(t.stdout)
        with_tests_pass = (ok>=134 and not bad and t.returncode==0)
        sh("cp %s/demo.rs tests/seeded_demo.rs" % d)
        t2=sh("cargo test --offline --features verif-hooks --test seeded_demo 2>&1")
        demo_fails_with = t2.returncode!=0 and "test result: FAILED" in t2.stdout
        sh("git checkout -- src Cargo.toml")
        t3=sh("cargo test --offline --features verif-hooks --test seeded_demo 2>&1")
        demo_passes_without = t3.returncode==0
        meta.update(confirmed=dict(existing_tests_pass_with_change=with_tests_pass, tests_passed=ok, demo_fails_with_change=demo_fails_with, demo_passes_without_change=demo_passes_without,
                    how="tools/confirm_seeded.py in a scratch worktree /tmp/cf-seeded (removed afterwards)"))
        json.dump(meta,open(meta_p,"w"),indent=1)
        print(sid, with_tests_pass, ok, demo_fails_with, demo_passes_without, flush=True)
finally:
    sh("git worktree remove --force %s" % WT, cwd="/repo")
