#!/bin/sh
# Re-runs every quick check (or the given tier) on the unchanged /repo tree and validates the
# evidence files; refuses to run if /repo has uncommitted changes (a seeded patch may be applied).
# usage: tools/refresh_evidence.sh [quick|thorough] [ids...]
cd /verif || exit 3
TIER=${1:-quick}; shift
IDS=${*:-"C01 C02 C03 C04 C05 C06 C07 C08 C09 C10 C11 C12 C13 C14 C15 C16 C17 C18 C19 C20"}
if [ -n "$(git -C /repo status --porcelain)" ]; then echo "/repo is not clean"; exit 3; fi
find replays -name "*.json" ! -name "known-*" -delete
bad=0
for id in $IDS; do
  out=$(./check $id $TIER 2>&1); rc=$?
  echo "$out" | tail -1
  if [ $rc -ne 0 ]; then echo "!!! $id exited $rc"; echo "$out" | tail -8; bad=1; fi
done
python3-vt - <<'PY' || bad=1
import json, jsonschema, glob, sys
s = json.load(open('/root/.vp/EVIDENCE.schema.json'))
ok = True
for f in sorted(glob.glob('/verif/evidence/*.json')):
    try:
        jsonschema.validate(json.load(open(f)), s)
    except Exception as e:
        ok = False; print("INVALID", f, str(e)[:200])
jsonschema.validate(json.load(open('/verif/MANIFEST.json')), json.load(open('/root/.vp/MANIFEST.schema.json')))
print("evidence + manifest valid" if ok else "EVIDENCE INVALID")
sys.exit(0 if ok else 1)
PY
exit $bad
