#!/usr/bin/env python3
"""Regenerates the table of section 7 of DESIGN.md from seeded/*/meta.json and seeded/RESULTS.json."""
import json, os, re
V = "/verif"
res = json.load(open(os.path.join(V, "seeded", "RESULTS.json")))
rows = []
for sid in sorted(os.listdir(os.path.join(V, "seeded"))):
    d = os.path.join(V, "seeded", sid)
    if not os.path.isdir(d):
        continue
    m = json.load(open(os.path.join(d, "meta.json")))
    r = res.get(sid, {})
    what = m.get("summary") or m.get("what_it_breaks", "")
    what = re.sub(r"\s+", " ", what).strip()
    what = what[:230] + ("..." if len(what) > 230 else "")
    checks = r.get("checks", {})
    det = ", ".join("%s (%s)" % (p, "; ".join(o["signatures"][:2])[:70]) for p, o in checks.items() if o["rc"] == 1) or "NOT DETECTED"
    missed = ", ".join(p for p, o in checks.items() if o["rc"] != 1)
    note = m.get("strengthening", "")
    rows.append("| %s | %s | %s | %s | %s |" % (sid, m["property"], what.replace("|", "/"), det.replace("|", "/"), (("also run, silent: " + missed + ". ") if missed else "") + note))
table = "| id | breaks | change (what it needs to manifest) | detected by quick check (signatures) | notes |\n|---|---|---|---|---|\n" + "\n".join(rows)
p = os.path.join(V, "DESIGN.md")
s = open(p).read()
a, b = "<!-- SEEDED-TABLE-BEGIN -->", "<!-- SEEDED-TABLE-END -->"
s = s[: s.index(a) + len(a)] + "\n" + table + "\n" + s[s.index(b):]
open(p, "w").write(s)
print(len(rows), "rows")
