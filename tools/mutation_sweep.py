#!/usr/bin/env python3
"""Systematic operator-mutation sweep: a sensitivity measurement for the monitors, complementing
the hand-written / agent-written seeded changes.

For every mutant (one token-level edit of one line of the crate's non-test source) this
  1. applies it to a SCRATCH copy of the repository (never /repo itself),
  2. builds and runs the repository's own test suite there; a mutant that does not compile or that
     the suite kills is of no interest (the tests already settle it),
  3. runs every quick check of a SCRATCH copy of /verif against the scratch repository
     (VERIF_REPO) with a reduced case budget and records which checks report a violation.
Survivors that no check reports are written out for manual triage (equivalent mutant, outside
every property, or a gap in a monitor).

  tools/mutation_sweep.py --work /root/scratch/msweep [--sample N] [--seed S] [--files a.rs,b.rs]
                          [--cases-div 4] [--out /root/scratch/msweep/results.jsonl]
Nothing here is registered in MANIFEST.json; it is a tool for validating the monitors."""
import argparse, json, os, random, re, shutil, subprocess, sys, time

def sh(cmd, cwd=None, env=None, timeout=None):
    try:
        return subprocess.run(cmd, shell=True, cwd=cwd, env=env, capture_output=True, text=True, timeout=timeout)
    except subprocess.TimeoutExpired as e:
        class R: pass
        r = R(); r.returncode = 124; r.stdout = (e.stdout or b"").decode("utf8", "replace") if isinstance(e.stdout, bytes) else (e.stdout or ""); r.stderr = "timeout"
        return r

# token-level replacement rules: (regex, replacement); applied to one occurrence at a time
RULES = [
    (r"==", "!="), (r"!=", "=="),
    (r"<=", "<"), (r">=", ">"),
    (r" < ", " <= "), (r" > ", " >= "),
    (r"&&", "||"), (r"\|\|", "&&"),
    (r"(?<![\w)\]]) ?- ?(?=\d)", None),           # placeholder (skipped)
    (r" \+ ", " - "), (r" - ", " + "),
    (r" \* ", " + "),
    (r"\btrue\b", "false"), (r"\bfalse\b", "true"),
    (r"\b0\b", "1"), (r"\b1\b", "0"), (r"\b1\b", "2"),
    (r"\b63\b", "64"), (r"\b64\b", "63"), (r"\b64\b", "65"),
    (r"\.rev\(\)", ""),
    (r"\.skip\(1\)", ""),
    (r"(?<![\w])!(?=[a-z_(])", ""),                          # drop a negation
    (r"\+= 1", "+= 2"), (r"-= 1", "-= 0"),
    (r"\.is_some\(\)", ".is_none()"), (r"\.is_none\(\)", ".is_some()"),
    (r"\.is_empty\(\)", ".len() == 1"),
    (r"\bmin\(", "max("), (r"\bmax\(", "min("),
    (r"wrapping_add", "wrapping_sub"), (r"wrapping_sub", "wrapping_add"),
    (r"wrapping_shl", "wrapping_shr"), (r"wrapping_shr", "wrapping_shl"),
    (r"\.first\(\)", ".last()"), (r"\.last\(\)", ".first()"),
    (r"\bcontinue;", "break;"), (r"\bbreak;", "continue;"),
    (r"\.push\(", ".insert(0, "),
    (r" & ", " | "), (r" \| ", " & "), (r" \^ ", " | "),
    (r" << ", " >> "), (r" >> ", " << "),
    (r" / ", " * "), (r" % ", " / "),
]

def non_test_lines(path):
    """Line indices outside #[cfg(test)] modules, comments and attribute lines."""
    lines = open(path).read().split("\n")
    out = []
    in_test = False
    for i, l in enumerate(lines):
        s = l.strip()
        if s.startswith("#[cfg(test)]"):
            in_test = True  # the test module runs to the end of the file in this crate
        if in_test:
            continue
        if not s or s.startswith("//") or s.startswith("#[") or s.startswith("use ") or s.startswith("#!["):
            continue
        if "verif_hooks" in l or "verif-hooks" in l or "write!(" in l or "writeln!(" in l or "#[error(" in l:
            continue
        out.append(i)
    return lines, out

def enumerate_mutants(repo, files):
    muts = []
    for f in files:
        p = os.path.join(repo, f)
        lines, idx = non_test_lines(p)
        for i in idx:
            l = lines[i]
            code = l.split("//")[0]
            # skip string-literal-heavy lines (error texts, regexes of the lexer are interesting though)
            for rx, rep in RULES:
                if rep is None:
                    continue
                for m in re.finditer(rx, code):
                    # do not mutate inside string literals of messages (#[error("...")], format strings)
                    before = code[:m.start()]
                    if before.count('"') % 2 == 1 and "regex" not in code and "token" not in code:
                        continue
                    new = l[:m.start()] + rep + l[m.end():]
                    if new != l:
                        muts.append(dict(file=f, line=i + 1, old=l.strip(), new=new.strip(), _new=new))
    return muts

def main():
    ap = argparse.ArgumentParser()
    ap.add_argument("--work", required=True)
    ap.add_argument("--sample", type=int, default=0)
    ap.add_argument("--seed", type=int, default=1)
    ap.add_argument("--files", default="")
    ap.add_argument("--cases-div", type=int, default=4)
    ap.add_argument("--checks", default="")
    ap.add_argument("--out", default="")
    ap.add_argument("--verif-src", default="/verif")
    ap.add_argument("--list-only", action="store_true")
    a = ap.parse_args()
    work = os.path.abspath(a.work)
    repo = os.path.join(work, "repo"); verif = os.path.join(work, "verif")
    out = a.out or os.path.join(work, "results.jsonl")
    os.makedirs(work, exist_ok=True)
    if not os.path.isdir(repo):
        r = sh("git -C /repo worktree add --detach %s HEAD" % repo); assert r.returncode == 0, r.stderr
    if not os.path.isdir(verif):
        r = sh("rsync -a --exclude target --exclude .git --exclude replays --exclude seeded %s/ %s/" % (a.verif_src, verif)); assert r.returncode == 0, r.stderr
        os.makedirs(os.path.join(verif, "replays"), exist_ok=True)
    files = a.files.split(",") if a.files else [
        "src/data_row_iterator.rs", "src/dig.rs", "src/eval_context.rs", "src/expr.rs", "src/framed_map.rs",
        "src/lib.rs", "src/parsed_test_case.rs", "src/static_test.rs", "src/stmt.rs", "src/value.rs",
        "src/lexer/mod.rs", "src/lexer/token.rs", "src/parser/binoptree.rs", "src/parser/expr.rs",
        "src/parser/mod.rs", "src/parser/stmt.rs"]
    sh("git checkout -- .", cwd=repo)
    muts = enumerate_mutants(repo, files)
    print("mutants enumerated:", len(muts), flush=True)
    rnd = random.Random(a.seed)
    if a.sample and a.sample < len(muts):
        muts = rnd.sample(muts, a.sample)
    if a.list_only:
        for m in muts: print(m["file"], m["line"], "|", m["old"], "=>", m["new"])
        return
    done = set()
    if os.path.exists(out):
        for l in open(out):
            d = json.loads(l); done.add((d["file"], d["line"], d["new"]))
    env = dict(os.environ, CARGO_NET_OFFLINE="true", VERIF_REPO=repo, VERIF_NO_MIRI="1", VERIF_NO_PROBES="1", VERIF_TIME_CAP="60")
    checks = a.checks.split(",") if a.checks else ["C%02d" % i for i in range(1, 21)]
    meta = json.loads(sh("./harness/target/release/dtrmon meta", cwd=a.verif_src).stdout or "{}") if False else None
    for k, m in enumerate(muts):
        key = (m["file"], m["line"], m["new"])
        if key in done:
            continue
        sh("git checkout -- .", cwd=repo)
        p = os.path.join(repo, m["file"])
        lines = open(p).read().split("\n")
        lines[m["line"] - 1] = m["_new"]
        open(p, "w").write("\n".join(lines))
        rec = dict(file=m["file"], line=m["line"], old=m["old"], new=m["new"])
        t0 = time.time()
        b = sh("cargo test --workspace --no-run --offline 2>&1 | tail -5", cwd=repo, env=env, timeout=900)
        b1 = sh("cargo build --offline --features verif-hooks", cwd=repo, env=env, timeout=600)
        comp = sh("cargo test --workspace --no-run --offline", cwd=repo, env=env, timeout=900)
        b2 = sh("cargo test --workspace --no-fail-fast --offline", cwd=repo, env=env, timeout=240) if comp.returncode == 0 and b1.returncode == 0 else None
        if b2 is None:
            rec["status"] = "does-not-compile"
        elif b2.returncode == 124:
            rec["status"] = "tests-timeout"
        elif b2.returncode != 0:
            rec["status"] = "killed-by-tests"
        else:
            # suite is green with the mutant: hand it to the monitors
            det = {}
            for c in checks:
                e = dict(env)
                if a.cases_div > 1:
                    e["VERIF_CASES_DIV"] = str(a.cases_div)
                r = sh("./check %s quick" % c, cwd=verif, env=e, timeout=1200)
                sig = []
                for l in r.stdout.splitlines():
                    if l.startswith("VIOLATION"):
                        try:
                            sig.append(json.load(open(os.path.join(verif, l.split("replay=")[1]) if not l.split("replay=")[1].startswith("/") else l.split("replay=")[1]))["signature"])
                        except Exception:
                            sig.append("?")
                det[c] = dict(rc=r.returncode, sigs=sorted(set(sig))[:3])
                if r.returncode not in (0, 1):
                    det[c]["tail"] = (r.stdout + r.stderr)[-300:]
            rec["checks"] = det
            rec["detected_by"] = [c for c, d in det.items() if d["rc"] == 1]
            rec["status"] = "detected" if rec["detected_by"] else "survived-all"
            sh("find replays -name '*.json' ! -name 'known-*' -delete", cwd=verif)
        rec["wall_s"] = round(time.time() - t0, 1)
        open(out, "a").write(json.dumps(rec) + "\n")
        print(k, rec["status"], m["file"], m["line"], "|", m["old"][:70], "=>", m["new"][:70], rec.get("detected_by", ""), rec["wall_s"], flush=True)
    sh("git checkout -- .", cwd=repo)

main()
