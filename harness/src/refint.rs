//! Reference interpreter: a direct, recursive, non-resumable reading of the model AST that
//! produces the *prescribed history* — device calls and row items — from the statements of
//! the properties (C01, C02, C04..C08, C10, C14, C17, C18). Independent of the crate's code.

use crate::device::{mask_bits, DevAnswer, DevSig, DeviceSim};
use crate::model::*;
use serde::Serialize;
use std::collections::{BTreeMap, HashMap};

#[derive(Clone, Debug, PartialEq, Eq, Serialize)]
pub enum RefErr {
    Driver { nonce: u64 },
    MissingOutputs(Vec<String>),
    ReadZX(String),
    VirtualZX(String),
    DivZero,
    Unassigned(String),
    RandomEmpty(i64),
    NotImplemented(String),
    LayoutDeviation,
}

impl RefErr {
    pub fn is_hazard(&self) -> bool {
        matches!(
            self,
            RefErr::DivZero
                | RefErr::Unassigned(_)
                | RefErr::RandomEmpty(_)
                | RefErr::NotImplemented(_)
        )
    }
}

#[derive(Clone, Debug, Serialize)]
pub struct RefCall {
    pub reads: bool,
    /// (config signal index, value) for every input-capable signal in signal-list order
    pub inputs: Vec<(usize, InVal)>,
}

#[derive(Clone, Debug, Serialize)]
pub struct RefRow {
    pub row_id: usize,
    pub inputs: Vec<(usize, InVal)>,
    pub checked: bool,
    /// (unified signal index, expected) for every output-capable / virtual signal; empty if !checked
    pub expected: Vec<(usize, ExpVal)>,
    /// device / virtual values in the same order as `expected`
    pub outputs: Vec<OutVal>,
    pub vars: BTreeMap<String, i64>,
    pub call: usize,
    pub depth: usize,
    /// index of this row within the expansion of its source row evaluation
    pub exp_index: usize,
}

#[derive(Clone, Debug, Serialize)]
pub enum RefItem {
    Row(RefRow),
    Err(RefErr),
}

#[derive(Clone, Debug, Default, Serialize)]
pub struct RefStats {
    pub unassigned_named_like_output: usize,
    pub rows: usize,
    pub checked_rows: usize,
    pub loops_entered: usize,
    pub loops_nonpositive: usize,
    pub max_depth: usize,
    pub whiles_zero: usize,
    pub while_iterations: usize,
    pub shadowing_lets: usize,
    pub lets_in_loop: usize,
    pub device_reads: usize,
    pub stale_sensitive_reads: usize,
    pub reads_after_midclock: usize,
    pub x_expansions: usize,
    pub c_expansions: usize,
    pub xc_expansions: usize,
    pub multi_x: usize,
    pub expansions_in_loop: usize,
    pub rows_after_loop_end: usize,
    pub rows_at_depth2_shadowed: usize,
    pub draws: usize,
    pub resets: usize,
    pub resets_followed_by_draws: usize,
    pub draws_in_control: usize,
    pub ite_skipped_random: usize,
    pub virtual_evals: usize,
    pub virtual_var_clash: usize,
    pub masked_values: usize,
    pub wide_signals: usize,
    pub div_ops: usize,
    pub hazards_reached: Vec<String>,
    pub row_level_errors: usize,
    pub steps: usize,
}

#[derive(Clone, Debug, Serialize)]
pub struct RefTrace {
    /// None = constructor succeeds
    pub construct_err: Option<RefErr>,
    pub calls: Vec<RefCall>,
    pub items: Vec<RefItem>,
    /// true = iteration reaches its natural end (no error item)
    pub ended: bool,
    pub stats: RefStats,
    /// unified signal names: configured signals then virtual signals in declaration order
    pub sig_names: Vec<String>,
    /// unified indices of output-capable / virtual signals in order
    pub expected_sigs: Vec<usize>,
    /// config indices of input-capable signals in order
    pub input_sigs: Vec<usize>,
    pub draws_left: usize,
    pub n_cfg: usize,
    /// vars() prescribed after row-level error items (item index -> variables)
    pub err_vars: BTreeMap<usize, BTreeMap<String, i64>>,
    /// unified indices of virtual signals that were part of the configured signal list
    pub list_virtuals: Vec<usize>,
    /// indices of statement-level error items the history continues past. No property says the
    /// iterator must go on after such an item, so an iteration that simply ends there is
    /// accepted; if it does go on, what it yields must be the continuation prescribed here.
    pub soft_errors: Vec<usize>,
    /// The history ends in an error item produced by a `while` condition that could not be
    /// evaluated, in a program without `random`. Nothing executes between that item and the next
    /// `next()` - no driver call, no binding - so the condition cannot evaluate any differently:
    /// whatever the iterator does next, it cannot justify a ROW (a body row would need the
    /// condition non-zero, a row behind the loop would need it zero; C01 + C04).
    pub ends_in_failing_while_condition: bool,
}

#[derive(Clone, Debug, Serialize)]
pub enum RefOutcome {
    Done(Box<RefTrace>),
    /// The reference cannot decide this case (budget, out of stated domain, draw log mismatch)
    Inconclusive(String),
}

#[derive(Clone, Copy, Debug, PartialEq, Eq)]
pub enum Draw {
    Draw { bound: i64, value: i64 },
    Reset,
}

pub struct RefOpts {
    pub max_rows: usize,
    pub max_steps: usize,
    /// Draw log recorded from the real run (hook); None = program must not use random
    pub draws: Option<Vec<Draw>>,
    /// Row-level errors (the driver failed the row's call, or a virtual signal of the row could
    /// not be evaluated) consume the row and the iteration goes on. If false the history ends
    /// at the first error item of any kind.
    pub continue_after_row_errors: bool,
    /// Pre-flight only: random(n) returns n-1 (the largest value it can draw) and resetRandom
    /// does nothing. Used to decide, before the real crate is run, whether a program that uses
    /// random finishes within the budgets; the resulting history is never compared.
    pub fake_draws: bool,
    /// Statement-level errors (a `let`, a row's entries, a loop/repeat bound could not be
    /// evaluated): the statement is abandoned - it binds nothing, yields nothing, the loop is
    /// skipped - and the history goes on with the next statement. A failing `while` condition
    /// still ends the history (the crate would re-evaluate it on the next call; not prescribed).
    /// What is prescribed after such an item is conditional: see `RefTrace::soft_errors`.
    pub continue_after_statement_errors: bool,
    /// The history is only wanted up to `max_rows` rows: reaching that budget ends the
    /// prescribed history (`ended` = false) instead of making the case inconclusive. Used for
    /// rows whose X expansion is astronomically long (11-130 X entries): the first rows are
    /// prescribed all the same.
    pub prefix_only: bool,
}

impl Default for RefOpts {
    fn default() -> Self {
        RefOpts {
            max_rows: 400,
            max_steps: 6000,
            draws: None,
            continue_after_row_errors: true,
            fake_draws: false,
            continue_after_statement_errors: true,
            prefix_only: false,
        }
    }
}

#[derive(Clone, Copy, Debug, PartialEq, Eq)]
enum Cell {
    Num(i64),
    X,
    Z,
    C,
}

enum Stop {
    Err(RefErr),
    Budget(String),
    /// row budget reached in prefix mode: the history ends here, open
    Prefix,
    /// construct failed / driver error already recorded
    Done,
}

struct Interp<'a> {
    sigs: &'a [Sig],
    header: &'a [String],
    dev: DeviceSim,
    opts: RefOpts,
    draw_pos: usize,
    frames: Vec<Vec<(String, i64)>>,
    last_read: HashMap<String, OutVal>,
    first_layout: Vec<DevSig>,
    calls: Vec<RefCall>,
    items: Vec<RefItem>,
    stats: RefStats,
    /// for every input-capable config signal: (cfg idx, Option<column>)
    in_cols: Vec<(usize, Option<usize>)>,
    /// for every expected signal: (unified idx, Option<column>, bits)
    exp_cols: Vec<(usize, Option<usize>, usize)>,
    /// header column -> is an input column
    col_is_input: Vec<bool>,
    virtuals: Vec<(String, &'a Expr)>,
    n_cfg: usize,
    last_call_was_midclock: bool,
    prev_read: HashMap<String, OutVal>,
    loop_just_ended: bool,
    in_control: bool,
    err_vars: BTreeMap<usize, BTreeMap<String, i64>>,
    soft_errors: Vec<usize>,
    while_cond_failed: bool,
    /// identifier occurrences that mean a variable (one of that name is in scope there)
    bound: std::collections::HashSet<usize>,
}

pub fn wrapping_eval_bin(op: BinOp, l: i64, r: i64) -> Result<i64, RefErr> {
    Ok(match op {
        BinOp::Mul => l.wrapping_mul(r),
        BinOp::Div => {
            if r == 0 {
                return Err(RefErr::DivZero);
            }
            l.wrapping_div(r)
        }
        BinOp::Rem => {
            if r == 0 {
                return Err(RefErr::DivZero);
            }
            l.wrapping_rem(r)
        }
        BinOp::Add => l.wrapping_add(r),
        BinOp::Sub => l.wrapping_sub(r),
        BinOp::Shl => l.wrapping_shl((r & 63) as u32),
        BinOp::Shr => l.wrapping_shr((r & 63) as u32),
        BinOp::And => l & r,
        BinOp::Xor => l ^ r,
        BinOp::Or => l | r,
        BinOp::Lt => (l < r) as i64,
        BinOp::Gt => (l > r) as i64,
        BinOp::Le => (l <= r) as i64,
        BinOp::Ge => (l >= r) as i64,
        BinOp::Eq => (l == r) as i64,
        BinOp::Ne => (l != r) as i64,
    })
}

pub fn eval_un(op: UnOp, v: i64) -> i64 {
    match op {
        UnOp::Neg => v.wrapping_neg(),
        UnOp::Not => (v == 0) as i64,
        UnOp::BitNot => !v,
    }
}

impl<'a> Interp<'a> {
    fn lookup_var(&self, n: &str) -> Option<i64> {
        for f in self.frames.iter().rev() {
            if let Some((_, v)) = f.iter().rev().find(|(k, _)| k == n) {
                return Some(*v);
            }
        }
        None
    }
    fn set_var(&mut self, n: &str, v: i64) {
        let depth = self.frames.len();
        let shadows = depth > 1
            && self.frames[..depth - 1]
                .iter()
                .any(|f| f.iter().any(|(k, _)| k == n));
        let f = self.frames.last_mut().unwrap();
        if let Some(e) = f.iter_mut().find(|(k, _)| k == n) {
            e.1 = v;
        } else {
            f.push((n.to_string(), v));
            if shadows {
                self.stats.shadowing_lets += 1;
            }
        }
    }
    fn flat_vars(&self) -> BTreeMap<String, i64> {
        let mut m = BTreeMap::new();
        for f in &self.frames {
            for (k, v) in f {
                m.insert(k.clone(), *v);
            }
        }
        m
    }

    /// `env_blind`: evaluate with no variables visible and `answers` as the outputs (virtual signals)
    fn eval(&mut self, e: &Expr, blind: Option<&HashMap<String, OutVal>>) -> Result<i64, RefErr> {
        match e {
            Expr::Num(v, _) => Ok(*v),
            Expr::Group(x) => self.eval(x, blind),
            Expr::Ident(n) => {
                if blind.is_none() {
                    if let Some(v) = self.lookup_var(n) {
                        return Ok(v);
                    }
                    // a variable in scope that was never assigned on the executed path is an
                    // error (C10), also when a device output happens to carry the same name
                    if self.bound.contains(&(e as *const Expr as usize)) {
                        if self.last_read.contains_key(n.as_str()) {
                            self.stats.unassigned_named_like_output += 1;
                        }
                        return Err(RefErr::Unassigned(n.clone()));
                    }
                }
                let src = blind.unwrap_or(&self.last_read);
                match src.get(n.as_str()) {
                    Some(OutVal::V(v)) => {
                        if blind.is_none() {
                            self.stats.device_reads += 1;
                            if self.prev_read.get(n.as_str()) != Some(&OutVal::V(*v)) {
                                self.stats.stale_sensitive_reads += 1;
                            }
                            if self.last_call_was_midclock {
                                self.stats.reads_after_midclock += 1;
                            }
                            if self.in_control {
                                // a device value steering control flow
                            }
                        }
                        Ok(*v)
                    }
                    Some(OutVal::Z) | Some(OutVal::X) => {
                        if blind.is_some() {
                            Err(RefErr::VirtualZX(n.clone()))
                        } else {
                            Err(RefErr::ReadZX(n.clone()))
                        }
                    }
                    None => Err(RefErr::Unassigned(n.clone())),
                }
            }
            Expr::Un(op, x) => Ok(eval_un(*op, self.eval(x, blind)?)),
            Expr::Bin(op, l, r) => {
                let a = self.eval(l, blind)?;
                let b = self.eval(r, blind)?;
                if matches!(op, BinOp::Div | BinOp::Rem) {
                    self.stats.div_ops += 1;
                }
                wrapping_eval_bin(*op, a, b)
            }
            Expr::Ite(c, a, b) => {
                let t = self.eval(c, blind)?;
                let (sel, skip) = if t != 0 { (a, b) } else { (b, a) };
                if skip.contains(&|x| matches!(x, Expr::Random(_))) {
                    self.stats.ite_skipped_random += 1;
                }
                self.eval(sel, blind)
            }
            Expr::Random(x) => {
                let bound = self.eval(x, blind)?;
                if self.opts.fake_draws {
                    return if bound < 2 { Err(RefErr::RandomEmpty(bound)) } else { Ok(bound - 1) };
                }
                let Some(log) = &self.opts.draws else {
                    return Err(RefErr::NotImplemented("random without draw log".into()));
                };
                match log.get(self.draw_pos) {
                    Some(Draw::Draw { bound: b, value }) if *b == bound => {
                        self.draw_pos += 1;
                        self.stats.draws += 1;
                        if self.in_control {
                            self.stats.draws_in_control += 1;
                        }
                        Ok(*value)
                    }
                    other => {
                        if bound < 2 {
                            // C10: empty range -> an error item is prescribed (a value was also
                            // acceptable, which the arm above has consumed if it was logged)
                            Err(RefErr::RandomEmpty(bound))
                        } else {
                            // the log does not contain the draw this evaluation must make
                            Err(RefErr::NotImplemented(format!(
                                "draw-accounting: evaluation of random({bound}) finds log entry {other:?}"
                            )))
                        }
                    }
                }
            }
            Expr::SignExt(a, b) => {
                let _ = self.eval(a, blind)?;
                let _ = self.eval(b, blind)?;
                Err(RefErr::NotImplemented("signExt".into()))
            }
        }
    }

    fn step(&mut self) -> Result<(), Stop> {
        self.stats.steps += 1;
        if self.stats.steps > self.opts.max_steps {
            return Err(Stop::Budget("step budget".into()));
        }
        Ok(())
    }

    fn device_call(&mut self, reads: bool, inputs: Vec<(usize, InVal)>) -> DevAnswer {
        let idx = self.calls.len();
        let ans = self.dev.call(idx, reads, &inputs, self.sigs);
        self.calls.push(RefCall { reads, inputs });
        ans
    }

    fn eval_entries(&mut self, es: &[Entry]) -> Result<Vec<Cell>, RefErr> {
        let mut cells = vec![];
        for e in es {
            match e {
                Entry::Lit(v, _) => cells.push(Cell::Num(*v)),
                Entry::Paren(x) => cells.push(Cell::Num(self.eval(x, None)?)),
                Entry::Bits(k, x) => {
                    let v = self.eval(x, None)?;
                    for n in (0..*k as u32).rev() {
                        cells.push(Cell::Num((v >> n) & 1));
                    }
                }
                Entry::X(_) => cells.push(Cell::X),
                Entry::Z(_) => cells.push(Cell::Z),
                Entry::C(_) => cells.push(Cell::C),
            }
        }
        Ok(cells)
    }

    fn emit_source_row(&mut self, row_id: usize, es: &[Entry]) -> Result<(), Stop> {
        let cells = match self.eval_entries(es) {
            Ok(c) => c,
            Err(e) => return self.stmt_error(e),
        };
        let vars = self.flat_vars();
        let depth = self.frames.len() - 1;
        let xs: Vec<usize> = (0..cells.len())
            .filter(|&c| cells[c] == Cell::X && self.col_is_input[c])
            .collect();
        let cs: Vec<usize> = (0..cells.len())
            .filter(|&c| cells[c] == Cell::C && self.col_is_input[c])
            .collect();
        if xs.len() > 12 && !self.opts.prefix_only {
            return Err(Stop::Budget("too many X".into()));
        }
        if !xs.is_empty() && !cs.is_empty() {
            self.stats.xc_expansions += 1;
        } else if !xs.is_empty() {
            self.stats.x_expansions += 1;
        } else if !cs.is_empty() {
            self.stats.c_expansions += 1;
        }
        if xs.len() >= 2 || cs.len() >= 2 {
            self.stats.multi_x += 1;
        }
        if (!xs.is_empty() || !cs.is_empty()) && depth > 0 {
            self.stats.expansions_in_loop += 1;
        }
        let shadowed_here = depth >= 2 && {
            // a name bound in more than one frame
            let mut seen = std::collections::HashSet::new();
            let mut dup = false;
            for f in &self.frames {
                for (k, _) in f {
                    if !seen.insert(k.as_str()) {
                        dup = true;
                    }
                }
            }
            dup
        };
        let mut exp_index = 0;
        let total: u128 = if xs.len() >= 127 { u128::MAX } else { 1u128 << xs.len() };
        let mut a: u128 = 0;
        while a < total {
            let mut row = cells.clone();
            for (j, &c) in xs.iter().enumerate() {
                row[c] = Cell::Num(if j < 128 { ((a >> j) & 1) as i64 } else { 0 });
            }
            let phases: &[(i64, bool)] = if cs.is_empty() {
                &[(0, true)]
            } else {
                &[(0, false), (1, false), (0, true)]
            };
            for &(clk, checked) in phases {
                let mut r = row.clone();
                for &c in &cs {
                    r[c] = Cell::Num(clk);
                }
                self.emit_row(row_id, &r, checked, &vars, depth, exp_index)?;
                if shadowed_here {
                    self.stats.rows_at_depth2_shadowed += 1;
                }
                exp_index += 1;
            }
            a += 1;
        }
        Ok(())
    }

    fn emit_row(
        &mut self,
        row_id: usize,
        cells: &[Cell],
        checked: bool,
        vars: &BTreeMap<String, i64>,
        depth: usize,
        exp_index: usize,
    ) -> Result<(), Stop> {
        if self.stats.rows >= self.opts.max_rows {
            return Err(if self.opts.prefix_only { Stop::Prefix } else { Stop::Budget("row budget".into()) });
        }
        self.stats.rows += 1;
        if self.loop_just_ended {
            self.stats.rows_after_loop_end += 1;
            self.loop_just_ended = false;
        }
        // inputs
        let mut inputs = vec![];
        for &(si, col) in &self.in_cols {
            let s = &self.sigs[si];
            let v = match col {
                Some(c) => match cells[c] {
                    Cell::Num(v) => {
                        let m = mask_bits(v, s.bits);
                        if m != v {
                            self.stats.masked_values += 1;
                        }
                        InVal::V(m)
                    }
                    Cell::Z => InVal::Z,
                    // X / C in an input column are expanded before we get here
                    Cell::X | Cell::C => unreachable!("unexpanded X/C"),
                },
                None => s.default().unwrap(),
            };
            inputs.push((si, v));
        }
        let call = self.calls.len();
        let ans = self.device_call(checked, inputs.clone());
        let outs = match ans {
            DevAnswer::Err(nonce) => return self.row_level_error(RefErr::Driver { nonce }, vars),
            DevAnswer::Outputs(o) => o,
        };
        if !checked {
            self.last_call_was_midclock = true;
            self.items.push(RefItem::Row(RefRow {
                row_id,
                inputs,
                checked,
                expected: vec![],
                outputs: vec![],
                vars: vars.clone(),
                call,
                depth,
                exp_index,
            }));
            return Ok(());
        }
        self.stats.checked_rows += 1;
        // layout must be the first answer's
        let lay: Vec<DevSig> = outs.iter().map(|(s, _)| s.clone()).collect();
        if lay != self.first_layout {
            // A pure re-ordering (same signals, other order) still names a value for every
            // signal of the layout: the row is an error item, the values are the latest read
            // ones, and the history goes on. Any other deviation ends the compared history.
            let mut a: Vec<String> = lay.iter().map(|s| format!("{s:?}")).collect();
            let mut b: Vec<String> = self.first_layout.iter().map(|s| format!("{s:?}")).collect();
            a.sort();
            b.sort();
            // The same holds for an answer that names every signal of the layout and something
            // more (an unknown signal, an input, an entry twice with the same value): too many
            // entries make the row an error item, yet every signal has its value.
            let superset = {
                let mut vals: HashMap<String, OutVal> = HashMap::new();
                let mut consistent = true;
                for (sg, v) in &outs {
                    let k = format!("{sg:?}");
                    if let Some(old) = vals.insert(k, *v) {
                        if old != *v {
                            consistent = false;
                        }
                    }
                }
                consistent && lay.len() > self.first_layout.len() && self.first_layout.iter().all(|s| lay.contains(s))
            };
            if (a == b || superset) && self.opts.continue_after_row_errors {
                let answers: HashMap<String, OutVal> = outs
                    .iter()
                    .filter_map(|(s, v)| match s {
                        DevSig::Cfg(i) => Some((self.sigs[*i].name.clone(), *v)),
                        DevSig::Unknown | DevSig::Twin(..) => None,
                    })
                    .collect();
                self.prev_read = std::mem::replace(&mut self.last_read, answers);
                self.last_call_was_midclock = false;
                return self.row_level_error(RefErr::LayoutDeviation, vars);
            }
            return Err(Stop::Err(RefErr::LayoutDeviation));
        }
        let answers: HashMap<String, OutVal> = outs
            .iter()
            .filter_map(|(s, v)| match s {
                DevSig::Cfg(i) => Some((self.sigs[*i].name.clone(), *v)),
                DevSig::Unknown | DevSig::Twin(..) => None,
            })
            .collect();
        self.prev_read = std::mem::replace(&mut self.last_read, answers.clone());
        self.last_call_was_midclock = false;
        // expected + outputs
        let mut expected = vec![];
        let mut outputs = vec![];
        let exp_cols = self.exp_cols.clone();
        for (ui, col, bits) in exp_cols {
            let ev = match col {
                Some(c) => match cells[c] {
                    Cell::Num(v) => {
                        let m = mask_bits(v, bits);
                        if m != v {
                            self.stats.masked_values += 1;
                        }
                        ExpVal::V(m)
                    }
                    Cell::Z => ExpVal::Z,
                    Cell::X => ExpVal::X,
                    Cell::C => ExpVal::X, // cannot happen for accepted tests
                },
                None => ExpVal::X,
            };
            expected.push((ui, ev));
            let ov = if ui < self.n_cfg && !matches!(self.sigs[ui].kind, SigKind::Virtual(_)) {
                match answers.get(&self.sigs[ui].name) {
                    Some(v) => *v,
                    None => OutVal::X,
                }
            } else if ui < self.n_cfg {
                // a virtual signal that came with the signal list
                let sigs = self.sigs;
                let SigKind::Virtual(expr) = &sigs[ui].kind else { unreachable!() };
                self.stats.virtual_evals += 1;
                match self.eval(expr, Some(&answers)) {
                    Ok(v) => OutVal::V(v),
                    Err(e) => return self.row_level_error(e, vars),
                }
            } else {
                let (name, expr) = self.virtuals[ui - self.n_cfg].clone();
                self.stats.virtual_evals += 1;
                if expr.idents().iter().any(|n| vars.contains_key(*n)) {
                    self.stats.virtual_var_clash += 1;
                }
                let _ = name;
                match self.eval(expr, Some(&answers)) {
                    Ok(v) => OutVal::V(v),
                    Err(e) => return self.row_level_error(e, vars),
                }
            };
            outputs.push(ov);
        }
        self.items.push(RefItem::Row(RefRow {
            row_id,
            inputs,
            checked,
            expected,
            outputs,
            vars: vars.clone(),
            call,
            depth,
            exp_index,
        }));
        Ok(())
    }

    /// The row's device call was issued but the row cannot be delivered: error item, row consumed.
    fn row_level_error(&mut self, e: RefErr, vars: &BTreeMap<String, i64>) -> Result<(), Stop> {
        if !self.opts.continue_after_row_errors {
            return Err(Stop::Err(e));
        }
        if e.is_hazard() {
            self.stats.hazards_reached.push(format!("{e:?}"));
        }
        self.err_vars.insert(self.items.len(), vars.clone());
        self.items.push(RefItem::Err(e));
        self.stats.row_level_errors += 1;
        Ok(())
    }

    /// A statement could not be evaluated: error item, statement abandoned, history goes on.
    fn stmt_error(&mut self, e: RefErr) -> Result<(), Stop> {
        let internal = matches!(&e, RefErr::NotImplemented(m) if m.starts_with("draw-accounting") || m.starts_with("random without"));
        if !self.opts.continue_after_statement_errors || internal || self.opts.draws.is_some() || self.opts.fake_draws {
            return Err(Stop::Err(e));
        }
        if e.is_hazard() {
            self.stats.hazards_reached.push(format!("{e:?}"));
        }
        let k = self.items.len();
        self.err_vars.insert(k, self.flat_vars());
        self.soft_errors.push(k);
        self.items.push(RefItem::Err(e));
        Ok(())
    }

    fn exec(&mut self, items: &[Item]) -> Result<(), Stop> {
        for it in items {
            self.step()?;
            match it {
                Item::Blank | Item::Comment(_) | Item::Declare(..) => {}
                Item::Let(n, e) => {
                    let v = match self.eval(e, None) {
                        Ok(v) => v,
                        Err(e) => {
                            self.stmt_error(e)?;
                            continue;
                        }
                    };
                    if self.frames.len() > 1 {
                        self.stats.lets_in_loop += 1;
                    }
                    self.set_var(n, v);
                }
                Item::ResetRandom => {
                    if self.opts.fake_draws {
                        continue;
                    }
                    if let Some(log) = &self.opts.draws {
                        match log.get(self.draw_pos) {
                            Some(Draw::Reset) => self.draw_pos += 1,
                            other => {
                                return Err(Stop::Err(RefErr::NotImplemented(format!(
                                    "draw-accounting: resetRandom executed but log has {other:?}"
                                ))))
                            }
                        }
                        self.stats.resets += 1;
                    }
                }
                Item::Row(id, es) => self.emit_source_row(*id, es)?,
                Item::Repeat(id, b, es) => {
                    self.in_control = true;
                    let n = self.eval(b, None);
                    self.in_control = false;
                    let n = match n {
                        Ok(n) => n,
                        Err(e) => {
                            self.stmt_error(e)?;
                            continue;
                        }
                    };
                    self.enter_loop(n);
                    self.frames.push(vec![]);
                    for c in 0..n.max(0) {
                        self.step()?;
                        self.set_counter("n", c);
                        self.emit_source_row(*id, es)?;
                    }
                    self.frames.pop();
                    self.loop_just_ended = true;
                }
                Item::Loop(v, b, inner) => {
                    self.in_control = true;
                    let n = self.eval(b, None);
                    self.in_control = false;
                    let n = match n {
                        Ok(n) => n,
                        Err(e) => {
                            self.stmt_error(e)?;
                            continue;
                        }
                    };
                    self.enter_loop(n);
                    self.frames.push(vec![]);
                    for c in 0..n.max(0) {
                        self.step()?;
                        self.set_counter(v, c);
                        self.exec(inner)?;
                    }
                    self.frames.pop();
                    self.loop_just_ended = true;
                }
                Item::While(c, inner) => {
                    let mut iters = 0usize;
                    loop {
                        self.step()?;
                        self.in_control = true;
                        let v = self.eval(c, None);
                        self.in_control = false;
                        if v.is_err() {
                            self.while_cond_failed = true;
                        }
                        if v.map_err(Stop::Err)? == 0 {
                            break;
                        }
                        iters += 1;
                        self.exec(inner)?;
                    }
                    if iters == 0 {
                        self.stats.whiles_zero += 1;
                    }
                    self.stats.while_iterations += iters;
                }
            }
        }
        Ok(())
    }

    fn set_counter(&mut self, n: &str, v: i64) {
        let f = self.frames.last_mut().unwrap();
        if let Some(e) = f.iter_mut().find(|(k, _)| k == n) {
            e.1 = v;
        } else {
            f.push((n.to_string(), v));
        }
    }

    fn enter_loop(&mut self, n: i64) {
        self.stats.loops_entered += 1;
        if n <= 0 {
            self.stats.loops_nonpositive += 1;
        }
        let d = self.frames.len();
        if d > self.stats.max_depth {
            self.stats.max_depth = d;
        }
    }
}

/// Does some `let` directly inside a loop body (no intervening loop) rebind that loop's own
/// counter? The statement of C01 does not define this, so such programs are out of domain.
pub fn rebinds_own_counter(items: &[Item], counter: Option<&str>) -> bool {
    for it in items {
        match it {
            Item::Let(n, _) if Some(n.as_str()) == counter => return true,
            Item::Loop(v, _, inner) => {
                if rebinds_own_counter(inner, Some(v)) {
                    return true;
                }
            }
            Item::While(_, inner) => {
                if rebinds_own_counter(inner, counter) {
                    return true;
                }
            }
            _ => {}
        }
    }
    false
}

pub fn run(p: &Program, sigs: &[Sig], script: &Script, opts: RefOpts) -> RefOutcome {
    if rebinds_own_counter(&p.items, None) {
        return RefOutcome::Inconclusive("let rebinds its own loop counter".into());
    }
    let n_cfg = sigs.len();
    let virtuals: Vec<(String, &Expr)> = p
        .declares()
        .into_iter()
        .map(|(n, e)| (n.to_string(), e))
        .collect();
    let mut sig_names: Vec<String> = sigs.iter().map(|s| s.name.clone()).collect();
    sig_names.extend(virtuals.iter().map(|(n, _)| n.clone()));
    let col_of = |name: &str| p.header.iter().position(|h| h == name);
    let in_cols: Vec<(usize, Option<usize>)> = sigs
        .iter()
        .enumerate()
        .filter(|(_, s)| s.is_input())
        .map(|(i, s)| (i, col_of(&s.name)))
        .collect();
    let mut exp_cols: Vec<(usize, Option<usize>, usize)> = vec![];
    for (i, s) in sigs.iter().enumerate() {
        match s.kind {
            SigKind::In(_) => {}
            SigKind::Out => exp_cols.push((i, col_of(&s.name), s.bits)),
            SigKind::Bidir(_) => exp_cols.push((i, col_of(&format!("{}_out", s.name)), s.bits)),
            SigKind::Virtual(_) => exp_cols.push((i, col_of(&s.name), 64)),
        }
    }
    for (k, (n, _)) in virtuals.iter().enumerate() {
        exp_cols.push((n_cfg + k, col_of(n), 64));
    }
    let mut col_is_input = vec![false; p.header.len()];
    for (_, c) in &in_cols {
        if let Some(c) = c {
            col_is_input[*c] = true;
        }
    }
    let expected_sigs = exp_cols.iter().map(|e| e.0).collect();
    let input_sigs = in_cols.iter().map(|e| e.0).collect();
    let mut it = Interp {
        sigs,
        header: &p.header,
        dev: DeviceSim::new(script),
        opts,
        draw_pos: 0,
        frames: vec![vec![]],
        last_read: HashMap::new(),
        first_layout: vec![],
        calls: vec![],
        items: vec![],
        stats: RefStats::default(),
        in_cols,
        exp_cols,
        col_is_input,
        virtuals,
        n_cfg,
        last_call_was_midclock: false,
        prev_read: HashMap::new(),
        loop_just_ended: false,
        in_control: false,
        err_vars: BTreeMap::new(),
        soft_errors: vec![],
        while_cond_failed: false,
        bound: crate::scope::analyse(p).bound,
    };
    let _ = it.header;
    it.stats.wide_signals = sigs.iter().filter(|s| s.bits >= 63).count();
    // constructor call: defaults, output-reading
    let defaults: Vec<(usize, InVal)> = it
        .in_cols
        .iter()
        .map(|(i, _)| (*i, sigs[*i].default().unwrap()))
        .collect();
    let mut construct_err = None;
    match it.device_call(true, defaults) {
        DevAnswer::Err(nonce) => construct_err = Some(RefErr::Driver { nonce }),
        DevAnswer::Outputs(o) => {
            it.first_layout = o.iter().map(|(s, _)| s.clone()).collect();
            it.last_read = o
                .iter()
                .filter_map(|(s, v)| match s {
                    DevSig::Cfg(i) => Some((sigs[*i].name.clone(), *v)),
                    DevSig::Unknown | DevSig::Twin(..) => None,
                })
                .collect();
            it.prev_read = HashMap::new();
            let reads = crate::scope::test_output_reads(p, sigs);
            let missing: Vec<String> = reads
                .into_iter()
                .filter(|n| !it.last_read.contains_key(n))
                .collect();
            if !missing.is_empty() {
                construct_err = Some(RefErr::MissingOutputs(missing));
            }
        }
    }
    let mut ended = false;
    if construct_err.is_none() {
        match it.exec(&p.items) {
            Ok(()) => ended = true,
            Err(Stop::Err(e)) => {
                if let RefErr::NotImplemented(m) = &e {
                    if m.starts_with("random without") {
                        return RefOutcome::Inconclusive(m.clone());
                    }
                }
                if e.is_hazard() {
                    it.stats.hazards_reached.push(format!("{e:?}"));
                }
                it.items.push(RefItem::Err(e));
            }
            Err(Stop::Budget(b)) => return RefOutcome::Inconclusive(b),
            Err(Stop::Done) | Err(Stop::Prefix) => {}
        }
    }
    let draws_left = it
        .opts
        .draws
        .as_ref()
        .map(|d| d.len() - it.draw_pos)
        .unwrap_or(0);
    RefOutcome::Done(Box::new(RefTrace {
        construct_err,
        calls: it.calls,
        items: it.items,
        ended,
        stats: it.stats,
        sig_names,
        expected_sigs,
        input_sigs,
        draws_left,
        n_cfg,
        err_vars: it.err_vars,
        soft_errors: it.soft_errors,
        ends_in_failing_while_condition: it.while_cond_failed && !ended && !p.uses_random() && it.opts.draws.is_none() && !it.opts.fake_draws,
        list_virtuals: sigs.iter().enumerate().filter(|(_, s)| matches!(s.kind, SigKind::Virtual(_))).map(|(i, _)| i).collect(),
    }))
}
