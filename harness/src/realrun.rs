//! Runs the real crate at its public boundary and records everything observable:
//! parse / bind / construct outcomes, every `next()` item, every driver call (before
//! answering) and answer, `vars()` after each step, and the RNG draw log (hook).

use crate::device::{DevAnswer, DevSig, DeviceSim};
use crate::model::*;
use digital_test_runner::errors::IterationError;
use digital_test_runner::verif_hooks::{self, DrawEvent};
use digital_test_runner::{
    DataRowIterator, ExpectedValue, InputEntry, InputValue, OutputEntry, OutputValue,
    ParsedTestCase, Signal, SignalType, TestCase, TestDriver,
};
use serde::Serialize;
use std::cell::RefCell;
use std::collections::BTreeMap;
use std::panic::{catch_unwind, AssertUnwindSafe};
use std::rc::Rc;
use std::str::FromStr;

// ---------------------------------------------------------------------------------------
// panic capture

#[derive(Clone, Debug, PartialEq, Eq, Serialize)]
pub struct PanicInfo {
    pub site: String,
    pub msg: String,
}

impl PanicInfo {
    pub fn signature(&self) -> String {
        let m: String = self.msg.chars().take(60).collect();
        format!("panic@{}:{}", self.site, m)
    }
}

thread_local! {
    static LAST_PANIC: RefCell<Option<PanicInfo>> = const { RefCell::new(None) };
    /// > 0 while the code under test runs inside `guarded`; a panic outside is the harness's own
    static GUARD_DEPTH: std::cell::Cell<u32> = const { std::cell::Cell::new(0) };
}

pub fn install_panic_hook() {
    std::panic::set_hook(Box::new(|info| {
        let site = info
            .location()
            .map(|l| {
                let f = l.file();
                // strip absolute prefix so signatures are stable across checkouts
                let f = f.rsplit_once("/repo/").map(|x| x.1).unwrap_or(f);
                format!("{}:{}", f, l.line())
            })
            .unwrap_or_else(|| "?".into());
        let msg = if let Some(s) = info.payload().downcast_ref::<&str>() {
            s.to_string()
        } else if let Some(s) = info.payload().downcast_ref::<String>() {
            s.clone()
        } else {
            "<non-string panic>".into()
        };
        if GUARD_DEPTH.with(|g| g.get()) == 0 {
            eprintln!("HARNESS PANIC (outside the code under test) at {site}: {msg}");
        }
        LAST_PANIC.with(|p| *p.borrow_mut() = Some(PanicInfo { site, msg }));
    }));
}

pub fn guarded<T>(f: impl FnOnce() -> T) -> Result<T, PanicInfo> {
    LAST_PANIC.with(|p| *p.borrow_mut() = None);
    GUARD_DEPTH.with(|g| g.set(g.get() + 1));
    let r = catch_unwind(AssertUnwindSafe(f));
    GUARD_DEPTH.with(|g| g.set(g.get() - 1));
    match r {
        Ok(v) => Ok(v),
        Err(_) => Err(LAST_PANIC.with(|p| p.borrow_mut().take()).unwrap_or(PanicInfo {
            site: "?".into(),
            msg: "?".into(),
        })),
    }
}

// ---------------------------------------------------------------------------------------
// value conversion

pub fn to_signal(s: &Sig) -> Signal {
    let d = |v: InVal| match v {
        InVal::V(n) => InputValue::Value(n),
        InVal::Z => InputValue::Z,
    };
    match &s.kind {
        SigKind::In(v) => Signal::input(s.name.clone(), s.bits, d(*v)),
        SigKind::Out => Signal::output(s.name.clone(), s.bits),
        SigKind::Bidir(v) => Signal::bidirectional(s.name.clone(), s.bits, d(*v)),
        SigKind::Virtual(e) => {
            // the only public way to obtain a Virtual signal: declare it in a donor test and
            // take it from that test's `signals`
            let text = crate::pp::ExprPrinter { redundant: false, tight: false }.print(e);
            // (declared under a fixed identifier; `Signal.name` is public and set afterwards, so
            // that lists edited by the C11 perturbations - renamed signals - stay expressible)
            let src = format!("dn\ndeclare vdonor = {};\n0\n", text);
            let mut sigs = vec![Signal::input("dn", 1, 0)];
            for n in e.idents() {
                if !sigs.iter().any(|x| x.name == n) {
                    sigs.push(Signal::output(n, 64));
                }
            }
            let tc = ParsedTestCase::from_str(&src)
                .expect("donor test parses")
                .with_signals(sigs)
                .expect("donor test binds");
            let mut sig = tc.signals.last().unwrap().clone();
            sig.name = s.name.clone();
            sig
        }
    }
}
pub fn from_in(v: InputValue) -> InVal {
    match v {
        InputValue::Value(n) => InVal::V(n),
        InputValue::Z => InVal::Z,
    }
}
pub fn from_out(v: OutputValue) -> OutVal {
    match v {
        OutputValue::Value(n) => OutVal::V(n),
        OutputValue::Z => OutVal::Z,
        OutputValue::X => OutVal::X,
    }
}
pub fn to_out(v: OutVal) -> OutputValue {
    match v {
        OutVal::V(n) => OutputValue::Value(n),
        OutVal::Z => OutputValue::Z,
        OutVal::X => OutputValue::X,
    }
}
pub fn from_exp(v: ExpectedValue) -> ExpVal {
    match v {
        ExpectedValue::Value(n) => ExpVal::V(n),
        ExpectedValue::Z => ExpVal::Z,
        ExpectedValue::X => ExpVal::X,
    }
}

// ---------------------------------------------------------------------------------------
// recording driver

#[derive(Debug, Clone, PartialEq, Eq)]
pub struct DevError {
    pub nonce: u64,
    pub call: usize,
}
impl std::fmt::Display for DevError {
    fn fmt(&self, f: &mut std::fmt::Formatter<'_>) -> std::fmt::Result {
        write!(f, "device error nonce={} call={}", self.nonce, self.call)
    }
}
impl std::error::Error for DevError {}

#[derive(Clone, Debug, PartialEq, Serialize)]
pub struct RealCall {
    /// true = entered through write_input_and_read_output by the crate itself
    pub reads: bool,
    /// (config signal index or usize::MAX, name, value, changed)
    pub inputs: Vec<(usize, String, InVal, bool)>,
    /// what the device answered: (config index or usize::MAX for unknown, value); None = error
    pub answer: Option<Vec<(usize, OutVal)>>,
    pub err_nonce: Option<u64>,
}

pub struct Shared {
    pub sim: DeviceSim,
    pub cfg: Vec<Sig>,
    pub calls: Vec<RealCall>,
}

pub struct RecDriver {
    pub shared: Rc<RefCell<Shared>>,
    sig_objs: Vec<Signal>,
    unknown: Signal,
    /// per configured signal: its three look-alikes (other type / other width / other default)
    twins: Vec<Vec<Signal>>,
    override_write: bool,
    /// per-call storage for the signals handed out (only used with `rebuild_signals`)
    buf: Vec<Signal>,
    rebuild_signals: bool,
}

/// A signal with the name of `s` that is not `s`: another type, another width or another default.
fn twin_of(s: &Signal, k: u8) -> Signal {
    use digital_test_runner::{InputValue, SignalType};
    let mut t = s.clone();
    let other_bits = if s.bits >= 64 { 63 } else { s.bits + 1 };
    match (k, &s.typ) {
        (0, SignalType::Bidirectional { default }) => t.typ = SignalType::Input { default: *default },
        (0, SignalType::Output) => t.typ = SignalType::Bidirectional { default: InputValue::Z },
        (0, SignalType::Input { default }) => t.typ = SignalType::Bidirectional { default: *default },
        (2, SignalType::Bidirectional { default }) => {
            t.typ = SignalType::Bidirectional { default: if *default == InputValue::Z { InputValue::Value(0) } else { InputValue::Z } }
        }
        (2, SignalType::Input { default }) => {
            t.typ = SignalType::Input { default: if *default == InputValue::Z { InputValue::Value(0) } else { InputValue::Z } }
        }
        _ => t.bits = other_bits,
    }
    t
}

impl RecDriver {
    pub fn new(cfg: &[Sig], script: &Script) -> Self {
        RecDriver {
            shared: Rc::new(RefCell::new(Shared {
                sim: DeviceSim::new(script),
                cfg: cfg.to_vec(),
                calls: vec![],
            })),
            sig_objs: cfg.iter().map(to_signal).collect(),
            unknown: Signal::output("__unknown_to_the_test__", 8),
            twins: cfg.iter().map(to_signal).map(|s| (0..3).map(|k| twin_of(&s, k)).collect()).collect(),
            override_write: script.override_write,
            buf: vec![],
            rebuild_signals: script.rebuild_signals,
        }
    }

    fn do_call(&self, inputs: &[InputEntry<'_>], reads: bool, via_write: bool) -> DevAnswer {
        let mut sh = self.shared.borrow_mut();
        let idx = sh.calls.len();
        let rec_inputs: Vec<(usize, String, InVal, bool)> = inputs
            .iter()
            .map(|e| {
                let i = sh
                    .cfg
                    .iter()
                    .position(|s| s.name == e.signal.name)
                    .unwrap_or(usize::MAX);
                (i, e.signal.name.clone(), from_in(e.value), e.changed)
            })
            .collect();
        // record the call before answering
        sh.calls.push(RealCall {
            reads: !via_write,
            inputs: rec_inputs.clone(),
            answer: None,
            err_nonce: None,
        });
        let plain: Vec<(usize, InVal)> = rec_inputs.iter().map(|(i, _, v, _)| (*i, *v)).collect();
        let cfg = sh.cfg.clone();
        let ans = sh.sim.call(idx, reads, &plain, &cfg);
        match &ans {
            DevAnswer::Err(n) => sh.calls[idx].err_nonce = Some(*n),
            DevAnswer::Outputs(o) => {
                sh.calls[idx].answer = Some(
                    o.iter()
                        .map(|(s, v)| {
                            (
                                match s {
                                    DevSig::Cfg(i) => *i,
                                    DevSig::Unknown | DevSig::Twin(..) => usize::MAX,
                                },
                                *v,
                            )
                        })
                        .collect(),
                )
            }
        }
        ans
    }
}

impl TestDriver for RecDriver {
    type Error = DevError;

    fn write_input_and_read_output(
        &mut self,
        inputs: &[InputEntry<'_>],
    ) -> Result<Vec<OutputEntry<'_>>, Self::Error> {
        let call = self.shared.borrow().calls.len();
        if self.rebuild_signals {
            // a driver that owns a buffer of Signals which it clears and refills on every call:
            // the i-th entry always lives at the same address, whatever signal it describes
            return match self.do_call(inputs, true, false) {
                DevAnswer::Err(nonce) => Err(DevError { nonce, call }),
                DevAnswer::Outputs(o) => {
                    self.buf.clear();
                    for (s, _) in &o {
                        self.buf.push(match s {
                            DevSig::Cfg(i) => self.sig_objs[*i].clone(),
                            DevSig::Unknown => self.unknown.clone(),
                            DevSig::Twin(i, k) => self.twins[*i][*k as usize % 3].clone(),
                        });
                    }
                    Ok(o.into_iter().enumerate().map(|(k, (_, v))| OutputEntry { signal: &self.buf[k], value: to_out(v) }).collect())
                }
            };
        }
        let this = &*self;
        match this.do_call(inputs, true, false) {
            DevAnswer::Err(nonce) => Err(DevError { nonce, call }),
            DevAnswer::Outputs(o) => Ok(o
                .into_iter()
                .map(|(s, v)| OutputEntry {
                    signal: match s {
                        DevSig::Cfg(i) => &this.sig_objs[i],
                        DevSig::Unknown => &this.unknown,
                        DevSig::Twin(i, k) => &this.twins[i][k as usize % 3],
                    },
                    value: to_out(v),
                })
                .collect()),
        }
    }

    fn write_input(&mut self, inputs: &[InputEntry<'_>]) -> Result<(), Self::Error> {
        let call = self.shared.borrow().calls.len();
        // With override_write the device sees a write-only call; without it the behaviour is
        // that of the trait's default method (the device sees an output-reading call whose
        // answer is discarded) but the log still knows which method the crate invoked.
        match self.do_call(inputs, !self.override_write, true) {
            DevAnswer::Err(nonce) => Err(DevError { nonce, call }),
            DevAnswer::Outputs(_) => Ok(()),
        }
    }
}

/// A driver that implements only the required trait method: mid-clock rows reach the device
/// through the trait's OWN default `write_input` (which must forward to the output-reading
/// method and discard the answer).
pub struct PlainDriver(pub RecDriver);

impl TestDriver for PlainDriver {
    type Error = DevError;

    fn write_input_and_read_output(
        &mut self,
        inputs: &[InputEntry<'_>],
    ) -> Result<Vec<OutputEntry<'_>>, Self::Error> {
        self.0.write_input_and_read_output(inputs)
    }
}

/// Plain `next()` run of a bound test against a fresh scripted device behind a [`PlainDriver`].
pub fn run_bound_plain_driver(
    tc: &TestCase,
    sigs: &[Sig],
    script: &Script,
    seed: Option<u64>,
    cap: usize,
) -> Option<(Vec<RealItem>, Vec<RealCall>, Option<PanicInfo>)> {
    let mut drv = PlainDriver(RecDriver::new(sigs, script));
    let shared = drv.0.shared.clone();
    verif_hooks::set_seed_override(seed);
    let _ = verif_hooks::take_draw_log();
    let r = guarded(|| tc.try_iter(&mut drv));
    verif_hooks::set_seed_override(None);
    let mut it = match r {
        Ok(Ok(it)) => it,
        Ok(Err(_)) => return None,
        Err(p) => return Some((vec![], vec![], Some(p))),
    };
    let mut items = vec![];
    let mut panic = None;
    while items.len() < cap {
        let r = guarded(|| it.next().map(|r| r.map(|row| conv_row(tc, &row))));
        let item = match r {
            Ok(None) => RealItem::End,
            Ok(Some(Ok(row))) => RealItem::Row(row),
            Ok(Some(Err(IterationError::Driver(e)))) => RealItem::ErrDriver { nonce: e.nonce, call: e.call },
            Ok(Some(Err(e @ IterationError::Runtime(_)))) => RealItem::ErrRuntime(err_chain(&e)),
            Err(p) => {
                panic = Some(p);
                break;
            }
        };
        let end = item == RealItem::End;
        items.push(item);
        if end {
            break;
        }
    }
    drop(it);
    let _ = verif_hooks::take_draw_log();
    let calls = shared.borrow().calls.clone();
    Some((items, calls, panic))
}

// ---------------------------------------------------------------------------------------
// trace

#[derive(Clone, Debug, PartialEq, Eq, Serialize)]
pub struct RealSig {
    pub name: String,
    pub bits: usize,
    /// "in" | "out" | "bidir" | "virtual"
    pub kind: String,
}

#[derive(Clone, Debug, PartialEq, Eq, Serialize)]
pub struct RealRow {
    pub line: usize,
    /// (index into TestCase.signals, value, changed)
    pub inputs: Vec<(usize, InVal, bool)>,
    /// (index into TestCase.signals, output, expected, check(), is_checked())
    pub outputs: Vec<(usize, OutVal, ExpVal, bool, bool)>,
    /// positions (within outputs) reported by failing_outputs()
    pub failing: Vec<usize>,
}

#[derive(Clone, Debug, PartialEq, Eq, Serialize)]
pub enum RealItem {
    Row(RealRow),
    ErrDriver { nonce: u64, call: usize },
    ErrRuntime(String),
    End,
    Panic(PanicInfo),
}

#[derive(Clone, Debug, Serialize)]
pub struct RealStep {
    pub item: RealItem,
    /// driver calls made during this step: [from, to)
    pub calls: (usize, usize),
    pub vars: Option<BTreeMap<String, i64>>,
    pub draws: Vec<DrawRec>,
}

#[derive(Clone, Copy, Debug, PartialEq, Eq, Serialize)]
pub enum DrawRec {
    NewContext(u64),
    Reset,
    Draw { bound: i64, value: i64 },
}

pub fn conv_draws(v: Vec<DrawEvent>) -> Vec<DrawRec> {
    v.into_iter()
        .map(|d| match d {
            DrawEvent::NewContext { seed } => DrawRec::NewContext(seed),
            DrawEvent::Reset => DrawRec::Reset,
            DrawEvent::Draw { bound, value } => DrawRec::Draw { bound, value },
        })
        .collect()
}

#[derive(Clone, Debug, Serialize)]
pub enum Stage {
    Ok,
    Err { text: String, spans: Vec<(usize, usize)> },
    Panic(PanicInfo),
    NotReached,
}

impl Stage {
    pub fn is_ok(&self) -> bool {
        matches!(self, Stage::Ok)
    }
}

#[derive(Clone, Debug, Serialize)]
pub enum Construct {
    Ok,
    ErrDriver { nonce: u64, call: usize },
    ErrRuntime(String),
    Panic(PanicInfo),
    NotReached,
}

#[derive(Clone, Debug, Serialize)]
pub struct RealTrace {
    pub parse: Stage,
    pub bind: Stage,
    pub signals: Vec<RealSig>,
    pub construct: Construct,
    pub construct_calls: usize,
    pub construct_draws: Vec<DrawRec>,
    pub steps: Vec<RealStep>,
    pub calls: Vec<RealCall>,
}

pub fn err_chain(e: &dyn std::error::Error) -> String {
    let mut s = e.to_string();
    let mut cur = e.source();
    while let Some(c) = cur {
        s.push_str(": ");
        s.push_str(&c.to_string());
        cur = c.source();
    }
    s
}

pub fn parse(text: &str) -> (Stage, Option<ParsedTestCase>) {
    match guarded(|| ParsedTestCase::from_str(text)) {
        Ok(Ok(p)) => (Stage::Ok, Some(p)),
        Ok(Err(e)) => (
            Stage::Err {
                text: err_chain(&e),
                spans: e.at.iter().map(|s| (s.start, s.end)).collect(),
            },
            None,
        ),
        Err(p) => (Stage::Panic(p), None),
    }
}

pub fn bind(parsed: ParsedTestCase, sigs: &[Sig]) -> (Stage, Option<TestCase>) {
    let signals: Vec<Signal> = sigs.iter().map(to_signal).collect();
    match guarded(move || parsed.with_signals(signals)) {
        Ok(Ok(tc)) => (Stage::Ok, Some(tc)),
        Ok(Err(e)) => (
            Stage::Err {
                text: err_chain(&e),
                spans: vec![],
            },
            None,
        ),
        Err(p) => (Stage::Panic(p), None),
    }
}

pub fn describe_signals(tc: &TestCase) -> Vec<RealSig> {
    tc.signals
        .iter()
        .map(|s| RealSig {
            name: s.name.clone(),
            bits: s.bits,
            kind: match s.typ {
                SignalType::Input { .. } => "in",
                SignalType::Output => "out",
                SignalType::Bidirectional { .. } => "bidir",
                SignalType::Virtual { .. } => "virtual",
            }
            .to_string(),
        })
        .collect()
}

fn sig_index(tc: &TestCase, s: &Signal) -> usize {
    tc.signals
        .iter()
        .position(|x| std::ptr::eq(x, s))
        .unwrap_or(usize::MAX)
}

pub fn conv_row(tc: &TestCase, row: &digital_test_runner::DataRow<'_>) -> RealRow {
    let failing_ptrs: Vec<*const digital_test_runner::OutputResultEntry<'_>> =
        row.failing_outputs().map(|e| e as *const _).collect();
    RealRow {
        line: row.line,
        inputs: row
            .inputs
            .iter()
            .map(|e| (sig_index(tc, e.signal), from_in(e.value), e.changed))
            .collect(),
        outputs: row
            .outputs
            .iter()
            .map(|e| {
                (
                    sig_index(tc, e.signal),
                    from_out(e.output),
                    from_exp(e.expected),
                    e.check(),
                    e.is_checked(),
                )
            })
            .collect(),
        failing: row
            .outputs
            .iter()
            .enumerate()
            .filter(|(_, e)| failing_ptrs.contains(&(*e as *const _)))
            .map(|(i, _)| i)
            .collect(),
    }
}

pub struct Session<'a, 'b> {
    tc: &'a TestCase,
    it: DataRowIterator<'a, 'b, RecDriver>,
    shared: Rc<RefCell<Shared>>,
    pub dead: bool,
}

thread_local! {
    /// Do not call `vars()` at all during this run (the other runs call it before the first
    /// `next()` and after every step): calling or not calling it must not matter
    pub static NEVER_CALL_VARS: std::cell::Cell<bool> = const { std::cell::Cell::new(false) };
    /// Enter through the deprecated alias `TestCase::run_iter` instead of `try_iter`
    pub static ENTER_THROUGH_RUN_ITER: std::cell::Cell<bool> = const { std::cell::Cell::new(false) };
}

pub fn construct<'a, 'b>(
    tc: &'a TestCase,
    drv: &'b mut RecDriver,
    seed: Option<u64>,
) -> (Construct, Option<Session<'a, 'b>>, Vec<DrawRec>) {
    let shared = drv.shared.clone();
    verif_hooks::set_seed_override(seed);
    let _ = verif_hooks::take_draw_log();
    #[allow(deprecated)]
    let r = if ENTER_THROUGH_RUN_ITER.with(|c| c.get()) {
        guarded(|| tc.run_iter(drv))
    } else {
        guarded(|| tc.try_iter(drv))
    };
    verif_hooks::set_seed_override(None);
    let draws = conv_draws(verif_hooks::take_draw_log());
    match r {
        Ok(Ok(it)) => {
            // vars() before the first next(): whatever it reports, it must not panic
            if !NEVER_CALL_VARS.with(|c| c.get()) {
                if let Err(p) = guarded(|| it.vars().len()) {
                    return (Construct::Panic(p), None, draws);
                }
            }
            (
                Construct::Ok,
                Some(Session {
                    tc,
                    it,
                    shared,
                    dead: false,
                }),
                draws,
            )
        }
        Ok(Err(IterationError::Driver(e))) => (
            Construct::ErrDriver {
                nonce: e.nonce,
                call: e.call,
            },
            None,
            draws,
        ),
        Ok(Err(e @ IterationError::Runtime(_))) => {
            (Construct::ErrRuntime(err_chain(&e)), None, draws)
        }
        Err(p) => (Construct::Panic(p), None, draws),
    }
}

impl<'a, 'b> Session<'a, 'b> {
    pub fn step(&mut self) -> RealStep {
        let from = self.shared.borrow().calls.len();
        let _ = verif_hooks::take_draw_log();
        let tc = self.tc;
        let it = &mut self.it;
        let r = guarded(|| it.next().map(|r| r.map(|row| conv_row(tc, &row))));
        let draws = conv_draws(verif_hooks::take_draw_log());
        let to = self.shared.borrow().calls.len();
        let item = match r {
            Ok(None) => RealItem::End,
            Ok(Some(Ok(row))) => RealItem::Row(row),
            Ok(Some(Err(IterationError::Driver(e)))) => RealItem::ErrDriver {
                nonce: e.nonce,
                call: e.call,
            },
            Ok(Some(Err(e @ IterationError::Runtime(_)))) => RealItem::ErrRuntime(err_chain(&e)),
            Err(p) => {
                self.dead = true;
                RealItem::Panic(p)
            }
        };
        let mut item = item;
        let vars = if self.dead || NEVER_CALL_VARS.with(|c| c.get()) {
            None
        } else {
            let it = &self.it;
            // vars() is called after every step - after rows, error items and the end alike; a
            // panic in it is a panic of the run
            match guarded(|| {
                let first = it.vars().into_iter().collect::<BTreeMap<_, _>>();
                // asked twice in a row, it answers the same
                let second = it.vars().into_iter().collect::<BTreeMap<_, _>>();
                if first != second {
                    panic!("vars() called twice in a row gave {first:?} and then {second:?}");
                }
                first
            }) {
                Ok(v) => Some(v),
                Err(p) => {
                    self.dead = true;
                    item = RealItem::Panic(p);
                    None
                }
            }
        };
        RealStep {
            item,
            calls: (from, to),
            vars,
            draws,
        }
    }
}

pub struct RunOpts {
    /// stop after this many steps
    pub max_steps: usize,
    /// keep calling next() this many times after the first End
    pub probe_after_end: usize,
    /// keep going after error items?
    pub stop_at_error: bool,
    pub seed: Option<u64>,
    /// per step index: keep going after an error item at that step (overrides stop_at_error)
    pub continue_on: Option<Vec<bool>>,
}

impl Default for RunOpts {
    fn default() -> Self {
        RunOpts {
            max_steps: 500,
            probe_after_end: 2,
            stop_at_error: true,
            seed: Some(0x5EED),
            continue_on: None,
        }
    }
}

/// Run an already bound test against a fresh scripted device.
pub fn run_bound(
    tc: &TestCase,
    sigs: &[Sig],
    script: &Script,
    opts: &RunOpts,
) -> (Construct, usize, Vec<DrawRec>, Vec<RealStep>, Vec<RealCall>) {
    let mut drv = RecDriver::new(sigs, script);
    let shared = drv.shared.clone();
    let (c, sess, cdraws) = construct(tc, &mut drv, opts.seed);
    let ccalls = shared.borrow().calls.len();
    let mut steps = vec![];
    if let Some(mut s) = sess {
        let mut ended = 0usize;
        while steps.len() < opts.max_steps {
            let st = s.step();
            let stop = match &st.item {
                RealItem::End => {
                    ended += 1;
                    ended > opts.probe_after_end
                }
                RealItem::Panic(_) => true,
                RealItem::ErrDriver { .. } | RealItem::ErrRuntime(_) => match &opts.continue_on {
                    Some(c) => !c.get(steps.len()).copied().unwrap_or(false),
                    None => opts.stop_at_error,
                },
                RealItem::Row(_) => false,
            };
            steps.push(st);
            if stop {
                break;
            }
        }
    }
    let calls = shared.borrow().calls.clone();
    (c, ccalls, cdraws, steps, calls)
}

/// How a caller consumes the iterator other than by plain `next()`.
#[derive(Clone, Debug, Serialize)]
pub enum Consume {
    /// `nth(k)` with k taken cyclically from the schedule
    Nth(Vec<usize>),
    /// `by_ref().skip(k).next()`
    Skip(Vec<usize>),
    /// `by_ref().step_by(s)` to the end
    StepBy(usize),
    /// m plain `next()`s, then `by_ref().count()`
    Count(usize),
    /// m plain `next()`s, then `by_ref().last()`
    Last(usize),
    /// m plain `next()`s, then the rest through `collect::<Vec<_>>()` (0), `for_each` (1),
    /// `fold` (2), `find(|_| false)` i.e. `try_fold` (3), `filter(..)` + `map(..)` chain (4)
    Bulk(usize, u8),
}

pub struct Consumed {
    /// (index of the item in the plain `next()` stream, item); `End` is recorded once
    pub items: Vec<(usize, RealItem)>,
    /// (index at which counting started, result of `count()`)
    pub count: Option<(usize, usize)>,
    /// (index after which `last()` was called, its result)
    pub last: Option<(usize, Option<RealItem>)>,
    pub calls: Vec<RealCall>,
    pub panic: Option<PanicInfo>,
}

/// Run an already bound test against a fresh scripted device, consuming the iterator through
/// the std adaptors a caller may use instead of `next()`.
pub fn run_bound_consume(
    tc: &TestCase,
    sigs: &[Sig],
    script: &Script,
    seed: Option<u64>,
    how: &Consume,
    cap: usize,
) -> Option<Consumed> {
    let mut drv = RecDriver::new(sigs, script);
    let shared = drv.shared.clone();
    let (c, sess, _) = construct(tc, &mut drv, seed);
    if !matches!(c, Construct::Ok) {
        return None;
    }
    let mut s = sess?;
    let mut out = Consumed { items: vec![], count: None, last: None, calls: vec![], panic: None };
    let conv = |r: Option<Result<digital_test_runner::DataRow<'_>, IterationError<DevError>>>| match r {
        None => RealItem::End,
        Some(Ok(row)) => RealItem::Row(conv_row(tc, &row)),
        Some(Err(IterationError::Driver(e))) => RealItem::ErrDriver { nonce: e.nonce, call: e.call },
        Some(Err(e @ IterationError::Runtime(_))) => RealItem::ErrRuntime(err_chain(&e)),
    };
    let it = &mut s.it;
    let res = guarded(|| {
        let mut idx = 0usize;
        match how {
            Consume::Nth(sch) | Consume::Skip(sch) => {
                let mut j = 0;
                while out.items.len() < cap {
                    let k = sch[j % sch.len()];
                    j += 1;
                    let item = if matches!(how, Consume::Nth(_)) {
                        conv(it.nth(k))
                    } else {
                        conv(it.by_ref().skip(k).next())
                    };
                    idx += k;
                    let end = item == RealItem::End;
                    out.items.push((idx, item));
                    idx += 1;
                    if end {
                        break;
                    }
                }
            }
            Consume::StepBy(step) => {
                let mut n = 0;
                for r in it.by_ref().step_by(*step).take(cap) {
                    out.items.push((n * step, conv(Some(r))));
                    n += 1;
                }
            }
            Consume::Bulk(m, kind) => {
                let mut ended = false;
                for _ in 0..*m {
                    let item = conv(it.next());
                    ended = item == RealItem::End;
                    out.items.push((idx, item));
                    if ended {
                        break;
                    }
                    idx += 1;
                }
                if !ended {
                    let mut rest: Vec<RealItem> = vec![];
                    match kind {
                        0 => rest = it.by_ref().collect::<Vec<_>>().into_iter().map(|r| conv(Some(r))).collect(),
                        1 => it.by_ref().for_each(|r| rest.push(conv(Some(r)))),
                        2 => {
                            rest = it.by_ref().fold(vec![], |mut v, r| {
                                v.push(conv(Some(r)));
                                v
                            })
                        }
                        3 => {
                            let _ = it.by_ref().find(|r| {
                                rest.push(match r {
                                    Ok(row) => RealItem::Row(conv_row(tc, row)),
                                    Err(e) => RealItem::ErrRuntime(err_chain(e)),
                                });
                                false
                            });
                        }
                        _ => rest = it.by_ref().filter(|_| true).map(|r| conv(Some(r))).collect(),
                    }
                    for item in rest {
                        out.items.push((idx, item));
                        idx += 1;
                    }
                    out.items.push((idx, conv(it.next())));
                }
            }
            Consume::Count(m) | Consume::Last(m) => {
                let mut ended = false;
                for _ in 0..*m {
                    let item = conv(it.next());
                    ended = item == RealItem::End;
                    out.items.push((idx, item));
                    if ended {
                        break;
                    }
                    idx += 1;
                }
                if !ended {
                    if matches!(how, Consume::Count(_)) {
                        out.count = Some((idx, it.by_ref().count()));
                    } else {
                        let l = it.by_ref().last();
                        out.last = Some((idx, l.map(|r| conv(Some(r)))));
                    }
                }
            }
        }
    });
    if let Err(p) = res {
        out.panic = Some(p);
    }
    out.calls = shared.borrow().calls.clone();
    Some(out)
}

/// Full pipeline from text.
pub fn run_text(text: &str, sigs: &[Sig], script: &Script, opts: &RunOpts) -> RealTrace {
    if std::env::var_os("DTR_TRACE_TEXT").is_some() {
        eprintln!("--- run_text ---\n{text}\n--- signals: {:?}", sigs.iter().map(|s| &s.name).collect::<Vec<_>>());
    }
    let mut tr = RealTrace {
        parse: Stage::NotReached,
        bind: Stage::NotReached,
        signals: vec![],
        construct: Construct::NotReached,
        construct_calls: 0,
        construct_draws: vec![],
        steps: vec![],
        calls: vec![],
    };
    let (ps, parsed) = parse(text);
    tr.parse = ps;
    let Some(parsed) = parsed else { return tr };
    let (bs, tc) = bind(parsed, sigs);
    tr.bind = bs;
    let Some(tc) = tc else { return tr };
    tr.signals = describe_signals(&tc);
    let (c, cc, cd, steps, calls) = run_bound(&tc, sigs, script, opts);
    tr.construct = c;
    tr.construct_calls = cc;
    tr.construct_draws = cd;
    tr.steps = steps;
    tr.calls = calls;
    tr
}
