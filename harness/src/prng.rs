//! Harness-owned PRNG (SplitMix64 seeding xoshiro256**). Independent of the `rand`
//! crate the target uses, so that case generation is reproducible from VERIF_SEED alone.

#[derive(Clone, Debug)]
pub struct Prng {
    s: [u64; 4],
}

pub fn splitmix(x: &mut u64) -> u64 {
    *x = x.wrapping_add(0x9E37_79B9_7F4A_7C15);
    let mut z = *x;
    z = (z ^ (z >> 30)).wrapping_mul(0xBF58_476D_1CE4_E5B9);
    z = (z ^ (z >> 27)).wrapping_mul(0x94D0_49BB_1331_11EB);
    z ^ (z >> 31)
}

/// Mix several words into one seed (used to derive per-case seeds).
pub fn mix(words: &[u64]) -> u64 {
    let mut h = 0x1234_5678_9ABC_DEF0u64;
    for w in words {
        h ^= *w;
        let mut x = h;
        h = splitmix(&mut x) ^ x.rotate_left(17);
    }
    h
}

pub fn hash_bytes(b: &[u8]) -> u64 {
    // FNV-1a 64 followed by a splitmix finaliser
    let mut h = 0xcbf2_9ce4_8422_2325u64;
    for x in b {
        h ^= *x as u64;
        h = h.wrapping_mul(0x0000_0100_0000_01B3);
    }
    let mut s = h;
    splitmix(&mut s)
}

impl Prng {
    pub fn new(seed: u64) -> Self {
        let mut x = seed;
        let s = [
            splitmix(&mut x),
            splitmix(&mut x),
            splitmix(&mut x),
            splitmix(&mut x),
        ];
        Prng { s }
    }
    pub fn next_u64(&mut self) -> u64 {
        let r = self.s[1].wrapping_mul(5).rotate_left(7).wrapping_mul(9);
        let t = self.s[1] << 17;
        self.s[2] ^= self.s[0];
        self.s[3] ^= self.s[1];
        self.s[1] ^= self.s[2];
        self.s[0] ^= self.s[3];
        self.s[2] ^= t;
        self.s[3] = self.s[3].rotate_left(45);
        r
    }
    /// Uniform in 0..n (n > 0)
    pub fn below(&mut self, n: usize) -> usize {
        debug_assert!(n > 0);
        ((self.next_u64() >> 11) % (n as u64)) as usize
    }
    /// Uniform in lo..=hi
    pub fn range(&mut self, lo: i64, hi: i64) -> i64 {
        debug_assert!(lo <= hi);
        let span = (hi as i128 - lo as i128 + 1) as u128;
        let r = (self.next_u64() as u128) % span;
        (lo as i128 + r as i128) as i64
    }
    pub fn chance(&mut self, num: u32, den: u32) -> bool {
        (self.next_u64() % den as u64) < num as u64
    }
    pub fn pick<'a, T>(&mut self, xs: &'a [T]) -> &'a T {
        &xs[self.below(xs.len())]
    }
    /// Pick an index by weight.
    pub fn weighted(&mut self, ws: &[u32]) -> usize {
        let total: u64 = ws.iter().map(|w| *w as u64).sum();
        debug_assert!(total > 0);
        let mut r = self.next_u64() % total;
        for (i, w) in ws.iter().enumerate() {
            if r < *w as u64 {
                return i;
            }
            r -= *w as u64;
        }
        ws.len() - 1
    }
    pub fn shuffle<T>(&mut self, xs: &mut [T]) {
        for i in (1..xs.len()).rev() {
            let j = self.below(i + 1);
            xs.swap(i, j);
        }
    }
    /// A 64-bit value with a boundary-heavy distribution.
    pub fn interesting_i64(&mut self) -> i64 {
        match self.below(10) {
            0 => self.range(0, 3),
            1 => self.range(-3, 3),
            2 => {
                let k = self.below(64) as u32;
                (1u64 << k) as i64
            }
            3 => {
                let k = self.below(64) as u32;
                ((1u64 << k) as i64).wrapping_sub(1)
            }
            4 => {
                let k = self.below(64) as u32;
                ((1u64 << k) as i64).wrapping_add(1)
            }
            5 => {
                let k = self.below(64) as u32;
                ((1u64 << k) as i64).wrapping_neg()
            }
            6 => *self.pick(&[i64::MIN, i64::MAX, i64::MIN + 1, i64::MAX - 1, -1, 0, 1]),
            7 => self.range(0, 255),
            8 => self.range(-70, 70),
            _ => self.next_u64() as i64,
        }
    }
}
