//! Table-driven tokenizer for the test-body grammar (and the header line), written from
//! the language description. Used to apply token-level edits (C12), to certify that a
//! layout rewrite keeps the token sequence (C20) and by the recogniser `refparse`.

#[derive(Clone, Copy, Debug, PartialEq, Eq, Hash)]
pub enum K {
    Comma,
    Semi,
    Op,      // any operator character sequence: + - * / % ! ~ ^ & | << >> = != <= >= < >
    LParen,
    RParen,
    Kw,      // end loop repeat bits let resetRandom while declare program init memory def call
    Ident,
    Dec,
    Hex,
    Bin,
    Oct,
    Eol,
    Error,
}

#[derive(Clone, Debug, PartialEq, Eq)]
pub struct Tok {
    pub k: K,
    pub start: usize,
    pub end: usize,
}

pub const KEYWORDS: [&str; 13] = [
    "end", "loop", "repeat", "bits", "let", "resetRandom", "while", "declare", "program", "init", "memory", "def", "call",
];

fn is_ws(c: u8) -> bool {
    c == b' ' || c == b'\t' || c == b'\r' || c == 0x0c
}

/// Tokenize body text starting at byte offset `from`.
pub fn lex(src: &str, from: usize) -> Vec<Tok> {
    let b = src.as_bytes();
    let mut i = from;
    let mut out = vec![];
    while i < b.len() {
        let c = b[i];
        if is_ws(c) {
            i += 1;
            continue;
        }
        if c == b'#' {
            while i < b.len() && b[i] != b'\n' {
                i += 1;
            }
            continue;
        }
        let start = i;
        if c == b'\n' {
            i += 1;
            out.push(Tok { k: K::Eol, start, end: i });
            continue;
        }
        if c.is_ascii_alphabetic() || c == b'_' {
            while i < b.len() && (b[i].is_ascii_alphanumeric() || b[i] == b'_') {
                i += 1;
            }
            let w = &src[start..i];
            let k = if KEYWORDS.contains(&w) { K::Kw } else { K::Ident };
            out.push(Tok { k, start, end: i });
            continue;
        }
        if c.is_ascii_digit() {
            if c != b'0' {
                while i < b.len() && b[i].is_ascii_digit() {
                    i += 1;
                }
                out.push(Tok { k: K::Dec, start, end: i });
                continue;
            }
            // starts with 0
            if i + 2 < b.len() + 0 && i + 1 < b.len() && (b[i + 1] == b'x' || b[i + 1] == b'X') && i + 2 < b.len() && b[i + 2].is_ascii_hexdigit() {
                i += 2;
                while i < b.len() && b[i].is_ascii_hexdigit() {
                    i += 1;
                }
                out.push(Tok { k: K::Hex, start, end: i });
                continue;
            }
            if i + 2 < b.len() && (b[i + 1] == b'b' || b[i + 1] == b'B') && (b[i + 2] == b'0' || b[i + 2] == b'1') {
                i += 2;
                while i < b.len() && (b[i] == b'0' || b[i] == b'1') {
                    i += 1;
                }
                out.push(Tok { k: K::Bin, start, end: i });
                continue;
            }
            i += 1;
            while i < b.len() && (b'0'..=b'7').contains(&b[i]) {
                i += 1;
            }
            out.push(Tok { k: K::Oct, start, end: i });
            continue;
        }
        let two = if i + 1 < b.len() { &b[i..i + 2] } else { &b[i..i + 1] };
        if matches!(two, b"<<" | b">>" | b"!=" | b"<=" | b">=") {
            i += 2;
            out.push(Tok { k: K::Op, start, end: i });
            continue;
        }
        let k = match c {
            b',' => K::Comma,
            b';' => K::Semi,
            b'(' => K::LParen,
            b')' => K::RParen,
            b'+' | b'-' | b'*' | b'/' | b'%' | b'!' | b'~' | b'^' | b'&' | b'|' | b'=' | b'<' | b'>' => K::Op,
            _ => K::Error,
        };
        // an error token covers one character
        let len = if k == K::Error { src[i..].chars().next().map(|c| c.len_utf8()).unwrap_or(1) } else { 1 };
        i += len;
        out.push(Tok { k, start, end: i });
    }
    out
}

/// The header: skips blank lines, returns (names with spans, offset just after the header's '\n').
/// None if there is no header line terminated by a line break.
pub fn header(src: &str) -> Option<(Vec<(String, usize, usize)>, usize)> {
    let b = src.as_bytes();
    let mut i = 0;
    let mut names = vec![];
    while i < b.len() {
        let c = b[i];
        if c == b'\n' {
            i += 1;
            if !names.is_empty() {
                return Some((names, i));
            }
            continue;
        }
        if is_ws(c) {
            i += 1;
            continue;
        }
        let s = i;
        while i < b.len() && !is_ws(b[i]) && b[i] != b'\n' {
            i += 1;
        }
        names.push((src[s..i].to_string(), s, i));
    }
    None
}

pub fn text<'a>(src: &'a str, t: &Tok) -> &'a str {
    &src[t.start..t.end]
}

/// Value of a number token, None if it does not fit in i64.
pub fn number_value(src: &str, t: &Tok) -> Option<i64> {
    let s = text(src, t);
    match t.k {
        K::Dec => s.parse::<i64>().ok(),
        K::Hex => i64::from_str_radix(&s[2..], 16).ok(),
        K::Bin => i64::from_str_radix(&s[2..], 2).ok(),
        K::Oct => i64::from_str_radix(s, 8).ok(),
        _ => None,
    }
}

/// Token sequence normalised for comparison: kinds + lexemes, numbers by value.
pub fn normalised(src: &str) -> Option<Vec<String>> {
    let (names, off) = header(src)?;
    let mut v: Vec<String> = names.iter().map(|n| format!("H:{}", n.0)).collect();
    for t in lex(src, off) {
        v.push(match t.k {
            K::Dec | K::Hex | K::Bin | K::Oct => format!("N:{:?}", number_value(src, &t).map(|x| x.to_string()).unwrap_or_else(|| text(src, &t).to_string())),
            K::Eol => "EOL".to_string(),
            _ => format!("{:?}:{}", t.k, text(src, &t)),
        });
    }
    Some(v)
}
