//! Recursive-descent *recogniser* for the test grammar as the properties state it (C08
//! expression grammar, C12 block / row / terminator rules). Only answers valid / invalid.
//! Used to confirm that a mutant built to be invalid really has no grammatical reading.

use crate::reflex::*;

pub struct R<'a> {
    src: &'a str,
    t: Vec<Tok>,
    i: usize,
    ncols: usize,
    declared: Vec<String>,
}

type Res = Result<(), String>;

const BINOPS: [&str; 16] = ["*", "/", "%", "+", "-", "<<", ">>", "&", "^", "|", "<", ">", "<=", ">=", "=", "!="];
const UNOPS: [&str; 3] = ["-", "!", "~"];

impl<'a> R<'a> {
    fn peek(&self) -> Option<&Tok> {
        self.t.get(self.i)
    }
    fn peek_text(&self) -> &str {
        self.peek().map(|t| text(self.src, t)).unwrap_or("<eof>")
    }
    fn at_k(&self, k: K) -> bool {
        self.peek().map(|t| t.k == k).unwrap_or(false)
    }
    fn at_kw(&self, w: &str) -> bool {
        self.peek().map(|t| t.k == K::Kw && text(self.src, t) == w).unwrap_or(false)
    }
    fn eat_k(&mut self, k: K) -> Res {
        if self.at_k(k) {
            self.i += 1;
            Ok(())
        } else {
            Err(format!("expected {k:?}, found {:?}", self.peek_text()))
        }
    }
    fn eat_kw(&mut self, w: &str) -> Res {
        if self.at_kw(w) {
            self.i += 1;
            Ok(())
        } else {
            Err(format!("expected keyword {w}, found {:?}", self.peek_text()))
        }
    }
    fn eat_op(&mut self, w: &str) -> Res {
        if self.peek().map(|t| t.k == K::Op && text(self.src, t) == w).unwrap_or(false) {
            self.i += 1;
            Ok(())
        } else {
            Err(format!("expected {w}, found {:?}", self.peek_text()))
        }
    }
    fn at_eof(&self) -> bool {
        self.i >= self.t.len()
    }

    fn number(&mut self) -> Result<i64, String> {
        match self.peek() {
            Some(t) if matches!(t.k, K::Dec | K::Hex | K::Bin | K::Oct) => {
                let v = number_value(self.src, t).ok_or_else(|| "literal does not fit in 64 bits".to_string())?;
                self.i += 1;
                Ok(v)
            }
            _ => Err(format!("expected a number, found {:?}", self.peek_text())),
        }
    }

    fn expr(&mut self) -> Res {
        self.factor()?;
        while let Some(t) = self.peek() {
            if t.k == K::Op && BINOPS.contains(&text(self.src, t)) {
                self.i += 1;
                self.factor()?;
            } else {
                break;
            }
        }
        Ok(())
    }

    fn factor(&mut self) -> Res {
        let Some(t) = self.peek().cloned() else { return Err("expression expected, found end of text".into()) };
        match t.k {
            K::Dec | K::Hex | K::Bin | K::Oct => self.number().map(|_| ()),
            K::Ident => {
                self.i += 1;
                if self.at_k(K::LParen) {
                    let name = text(self.src, &t).to_string();
                    let arity = match name.as_str() {
                        "random" => 1,
                        "ite" => 3,
                        "signExt" => 2,
                        _ => return Err(format!("unknown function {name}")),
                    };
                    self.i += 1;
                    let mut n = 1;
                    self.expr()?;
                    while self.at_k(K::Comma) {
                        self.i += 1;
                        self.expr()?;
                        n += 1;
                    }
                    self.eat_k(K::RParen)?;
                    if n != arity {
                        return Err(format!("{name} takes {arity} arguments, {n} given"));
                    }
                }
                Ok(())
            }
            K::Op if UNOPS.contains(&text(self.src, &t)) => {
                self.i += 1;
                self.factor()
            }
            K::LParen => {
                self.i += 1;
                self.expr()?;
                self.eat_k(K::RParen)
            }
            _ => Err(format!("unexpected {:?} in expression", text(self.src, &t))),
        }
    }

    fn row(&mut self) -> Res {
        let mut w = 0usize;
        loop {
            let Some(t) = self.peek().cloned() else { break };
            match t.k {
                K::Eol => break,
                K::LParen => {
                    self.i += 1;
                    self.expr()?;
                    self.eat_k(K::RParen)?;
                    w += 1;
                }
                K::Kw if text(self.src, &t) == "bits" => {
                    self.i += 1;
                    self.eat_k(K::LParen)?;
                    let n = self.number()?;
                    if n > 64 {
                        return Err("bits width above 64".into());
                    }
                    self.eat_k(K::Comma)?;
                    self.expr()?;
                    self.eat_k(K::RParen)?;
                    w += n as usize;
                }
                K::Ident => {
                    if !matches!(text(self.src, &t), "C" | "c" | "X" | "x" | "Z" | "z") {
                        return Err(format!("identifier {} in a data row", text(self.src, &t)));
                    }
                    self.i += 1;
                    w += 1;
                }
                K::Dec | K::Hex | K::Bin | K::Oct => {
                    self.number()?;
                    w += 1;
                }
                _ => return Err(format!("unexpected {:?} in a data row", text(self.src, &t))),
            }
        }
        if w != self.ncols {
            return Err(format!("row has {w} entries, header has {}", self.ncols));
        }
        Ok(())
    }

    /// stmts until `end <kw>` (nested) or end of text (top level)
    fn block(&mut self, closer: Option<&str>) -> Res {
        loop {
            // one line: [stmt] then Eol / Eof
            let Some(t) = self.peek().cloned() else {
                return if closer.is_some() { Err("block not terminated before end of text".into()) } else { Ok(()) };
            };
            match t.k {
                K::Eol => {
                    self.i += 1;
                    continue;
                }
                K::Kw => match text(self.src, &t) {
                    "end" => {
                        let Some(c) = closer else { return Err("end at top level".into()) };
                        self.i += 1;
                        self.eat_kw(c)?;
                        return Ok(());
                    }
                    "loop" => {
                        self.i += 1;
                        self.eat_k(K::LParen)?;
                        self.eat_k(K::Ident)?;
                        self.eat_k(K::Comma)?;
                        self.expr()?;
                        self.eat_k(K::RParen)?;
                        self.eat_k(K::Eol)?;
                        self.block(Some("loop"))?;
                    }
                    "while" => {
                        self.i += 1;
                        self.eat_k(K::LParen)?;
                        self.expr()?;
                        self.eat_k(K::RParen)?;
                        self.eat_k(K::Eol)?;
                        self.block(Some("while"))?;
                    }
                    "repeat" => {
                        self.i += 1;
                        self.eat_k(K::LParen)?;
                        self.expr()?;
                        self.eat_k(K::RParen)?;
                        self.row()?;
                    }
                    "let" => {
                        self.i += 1;
                        self.eat_k(K::Ident)?;
                        self.eat_op("=")?;
                        self.expr()?;
                        self.eat_k(K::Semi)?;
                    }
                    "resetRandom" => {
                        self.i += 1;
                        self.eat_k(K::Semi)?;
                    }
                    "declare" => {
                        self.i += 1;
                        let n = self.peek().cloned();
                        self.eat_k(K::Ident)?;
                        let name = text(self.src, &n.unwrap()).to_string();
                        if self.declared.contains(&name) {
                            return Err(format!("virtual signal {name} declared twice"));
                        }
                        self.declared.push(name);
                        self.eat_op("=")?;
                        self.expr()?;
                        self.eat_k(K::Semi)?;
                    }
                    "bits" => self.row()?,
                    other => return Err(format!("unsupported statement {other}")),
                },
                K::LParen | K::Ident | K::Dec | K::Hex | K::Bin | K::Oct => self.row()?,
                _ => return Err(format!("unexpected {:?} at start of statement", text(self.src, &t))),
            }
            // statement terminator
            if self.at_eof() {
                continue;
            }
            self.eat_k(K::Eol).map_err(|_| format!("expected end of line, found {:?}", self.peek_text()))?;
        }
    }
}

/// Ok(()) if the text is a valid test per the grammar, else the reason it is not.
pub fn recognise(src: &str) -> Result<(), String> {
    let Some((names, off)) = header(src) else { return Err("no header line terminated by a line break".into()) };
    for (i, n) in names.iter().enumerate() {
        if names[..i].iter().any(|m| m.0 == n.0) {
            return Err(format!("header name {} appears twice", n.0));
        }
    }
    let toks = lex(src, off);
    if let Some(e) = toks.iter().find(|t| t.k == K::Error) {
        return Err(format!("unknown character {:?}", text(src, e)));
    }
    let mut r = R { src, t: toks, i: 0, ncols: names.len(), declared: vec![] };
    r.block(None)
}
