//! Renders a circuit description as Digital's `.dig` XML, with layout variety.

use crate::prng::Prng;
use serde::Serialize;

#[derive(Clone, Debug, PartialEq, Eq, Serialize)]
pub enum PinKind {
    In,
    Clock,
    Out,
    /// an element that is not a pin (And, Const, Probe, Tunnel, ...) but may carry Label/Bits
    Other(String),
}

#[derive(Clone, Debug, PartialEq, Eq, Serialize)]
pub enum BitsSpec {
    Absent,
    N(usize),
    Junk(String),
}

#[derive(Clone, Debug, PartialEq, Eq, Serialize)]
pub enum DefSpec {
    Absent,
    /// (v attribute, z attribute)
    Val(Option<String>, Option<String>),
}

#[derive(Clone, Debug, PartialEq, Eq, Serialize)]
pub struct Pin {
    pub kind: PinKind,
    pub label: Option<String>,
    pub bits: BitsSpec,
    pub default: DefSpec,
}

#[derive(Clone, Debug, PartialEq, Eq, Serialize)]
pub struct TestDesc {
    pub label: Option<String>,
    pub source: String,
}

#[derive(Clone, Debug, PartialEq, Eq, Serialize)]
pub struct Circuit {
    pub pins: Vec<Pin>,
    pub tests: Vec<TestDesc>,
}

#[derive(Clone, Debug, Serialize)]
pub struct XmlStyle {
    pub indent: u8,
    pub shuffle_entries: bool,
    pub noise_entries: bool,
    pub comments: bool,
    pub cdata: bool,
    pub crlf: bool,
    pub bom: bool,
    pub shuffle_elements: bool,
}

impl XmlStyle {
    pub fn plain() -> Self {
        XmlStyle { indent: 1, shuffle_entries: false, noise_entries: false, comments: false, cdata: false, crlf: false, bom: false, shuffle_elements: false }
    }
    pub fn random(r: &mut Prng) -> Self {
        XmlStyle {
            indent: r.below(3) as u8,
            shuffle_entries: r.chance(1, 2),
            noise_entries: r.chance(1, 2),
            comments: r.chance(1, 4),
            cdata: r.chance(1, 4),
            crlf: r.chance(1, 6),
            bom: false,
            shuffle_elements: r.chance(2, 3),
        }
    }
}

pub fn escape(s: &str) -> String {
    let mut o = String::new();
    for c in s.chars() {
        match c {
            '&' => o.push_str("&amp;"),
            '<' => o.push_str("&lt;"),
            '>' => o.push_str("&gt;"),
            '"' => o.push_str("&quot;"),
            '\r' => o.push_str("&#13;"),
            c => o.push(c),
        }
    }
    o
}

struct W<'a> {
    s: String,
    st: &'a XmlStyle,
}

impl<'a> W<'a> {
    fn line(&mut self, depth: usize, t: &str) {
        match self.st.indent {
            0 => {}
            1 => {
                for _ in 0..depth {
                    self.s.push_str("  ")
                }
            }
            _ => {
                for _ in 0..depth {
                    self.s.push('\t')
                }
            }
        }
        self.s.push_str(t);
        self.s.push_str(if self.st.crlf { "\r\n" } else { "\n" });
    }
}

pub fn render(c: &Circuit, st: &XmlStyle, r: &mut Prng) -> String {
    let mut w = W { s: String::new(), st };
    if st.bom {
        w.s.push('\u{feff}');
    }
    w.line(0, "<?xml version=\"1.0\" encoding=\"utf-8\"?>");
    w.line(0, "<circuit>");
    w.line(1, "<version>2</version>");
    w.line(1, "<attributes/>");
    w.line(1, "<visualElements>");
    // elements: pins and tests; document order of pins among themselves and tests among
    // themselves is kept (it is observable), but the two kinds may interleave
    enum El<'b> {
        P(&'b Pin),
        T(&'b TestDesc),
    }
    let mut els: Vec<El> = vec![];
    let (mut pi, mut ti) = (0, 0);
    while pi < c.pins.len() || ti < c.tests.len() {
        let take_pin = if pi >= c.pins.len() {
            false
        } else if ti >= c.tests.len() {
            true
        } else if st.shuffle_elements {
            r.chance(1, 2)
        } else {
            true
        };
        if take_pin {
            els.push(El::P(&c.pins[pi]));
            pi += 1;
        } else {
            els.push(El::T(&c.tests[ti]));
            ti += 1;
        }
    }
    for el in els {
        if st.comments && r.chance(1, 3) {
            w.line(2, "<!-- <visualElement><elementName>In</elementName></visualElement> -->");
        }
        w.line(2, "<visualElement>");
        let mut entries: Vec<Vec<String>> = vec![];
        let name;
        // an element that is no pin may also come without any <elementName> (it is still no pin;
        // survivor of the operator-mutation sweep: dig.rs `return false` -> `return true`)
        let nameless = matches!(&el, El::P(p) if matches!(p.kind, PinKind::Other(_))) && r.chance(1, 3);
        match el {
            El::P(p) => {
                name = match &p.kind {
                    PinKind::In => "In".to_string(),
                    PinKind::Clock => "Clock".to_string(),
                    PinKind::Out => "Out".to_string(),
                    PinKind::Other(n) => n.clone(),
                };
                if let Some(l) = &p.label {
                    entries.push(vec!["<string>Label</string>".into(), format!("<string>{}</string>", escape(l))]);
                }
                match &p.bits {
                    BitsSpec::Absent => {}
                    BitsSpec::N(n) => entries.push(vec!["<string>Bits</string>".into(), format!("<int>{n}</int>")]),
                    BitsSpec::Junk(j) => entries.push(vec!["<string>Bits</string>".into(), format!("<int>{}</int>", escape(j))]),
                }
                match &p.default {
                    DefSpec::Absent => {}
                    DefSpec::Val(v, z) => {
                        let mut a = vec![];
                        if let Some(v) = v {
                            a.push(format!("v=\"{}\"", escape(v)));
                        }
                        if let Some(z) = z {
                            a.push(format!("z=\"{}\"", escape(z)));
                        }
                        if r.chance(1, 2) {
                            a.reverse();
                        }
                        entries.push(vec!["<string>InDefault</string>".into(), format!("<value {}/>", a.join(" "))]);
                    }
                }
                if st.noise_entries {
                    if r.chance(1, 2) {
                        entries.push(vec!["<string>rotation</string>".into(), "<rotation rotation=\"3\"/>".into()]);
                    }
                    if r.chance(1, 2) {
                        entries.push(vec!["<string>pinNumber</string>".into(), format!("<string>{}</string>", r.below(30))]);
                    }
                    if r.chance(1, 3) {
                        entries.push(vec!["<string>Description</string>".into(), "<string>Label</string>".into()]);
                    }
                    if r.chance(1, 4) {
                        entries.push(vec!["<string>isHighZ</string>".into(), "<boolean>true</boolean>".into()]);
                    }
                }
            }
            El::T(t) => {
                name = "Testcase".to_string();
                if let Some(l) = &t.label {
                    entries.push(vec!["<string>Label</string>".into(), format!("<string>{}</string>", escape(l))]);
                }
                let body = if st.cdata && !t.source.contains("]]>") && !t.source.contains('\r') {
                    format!("<![CDATA[{}]]>", t.source)
                } else {
                    escape(&t.source)
                };
                entries.push(vec![
                    "<string>Testdata</string>".into(),
                    "<testData>".into(),
                    format!("  <dataString>{body}</dataString>"),
                    "</testData>".into(),
                ]);
                if st.noise_entries && r.chance(1, 3) {
                    entries.push(vec!["<string>Description</string>".into(), "<string>a test</string>".into()]);
                }
            }
        }
        if !nameless {
            w.line(3, &format!("<elementName>{}</elementName>", escape(&name)));
        } else if r.chance(1, 2) {
            // ... or with an empty one (survivor: `.unwrap_or(false)` -> `.unwrap_or(true)`)
            w.line(3, if r.chance(1, 2) { "<elementName/>" } else { "<elementName></elementName>" });
        }
        if st.noise_entries && r.chance(1, 4) {
            // an entry without any child element in front of the real ones: skipped, not the end
            // of the attribute list (survivor: `continue` -> `break` in the attribute scan)
            entries.insert(0, vec![]);
        }
        if st.shuffle_entries {
            r.shuffle(&mut entries);
        }
        if entries.is_empty() {
            // an element without attributes: an empty element, or none at all
            if r.chance(1, 2) {
                w.line(3, "<elementAttributes/>");
            }
        } else {
            w.line(3, "<elementAttributes>");
            for e in entries {
                w.line(4, "<entry>");
                for l in e {
                    // the dataString line must not be re-indented line by line: emit verbatim
                    if l.contains("<dataString>") {
                        w.s.push_str(l.trim_start());
                        w.s.push('\n');
                    } else {
                        w.line(5, &l);
                    }
                }
                w.line(4, "</entry>");
            }
            w.line(3, "</elementAttributes>");
        }
        w.line(3, &format!("<pos x=\"{}\" y=\"{}\"/>", r.range(-900, 900), r.range(-900, 900)));
        w.line(2, "</visualElement>");
    }
    w.line(1, "</visualElements>");
    w.line(1, "<wires/>");
    w.line(1, "<measurementOrdering/>");
    w.line(0, "</circuit>");
    w.s
}

/// The header names of a test source per the header grammar: the first line holding at
/// least one token, tokens separated by space / tab / CR / FF, terminated by LF.
pub fn header_names(src: &str) -> Option<Vec<String>> {
    let mut rest = src;
    loop {
        let nl = rest.find('\n')?;
        let line = &rest[..nl];
        let toks: Vec<String> = line
            .split([' ', '\t', '\r', '\x0c'])
            .filter(|t| !t.is_empty())
            .map(|t| t.to_string())
            .collect();
        if !toks.is_empty() {
            return Some(toks);
        }
        rest = &rest[nl + 1..];
    }
}
