mod acc;
mod compare;
mod device;
mod gen;
mod model;
mod monitors;
mod pp;
mod prng;
mod realrun;
mod refint;
mod reflex;
mod refparse;
mod scope;
mod xmlgen;

use serde_json::json;
use std::collections::HashMap;
use std::io::Write;
use std::time::Instant;

fn args_map(args: &[String]) -> HashMap<String, String> {
    let mut m = HashMap::new();
    let mut i = 0;
    while i < args.len() {
        if let Some(k) = args[i].strip_prefix("--") {
            if i + 1 < args.len() && !args[i + 1].starts_with("--") {
                m.insert(k.to_string(), args[i + 1].clone());
                i += 2;
            } else {
                m.insert(k.to_string(), "1".to_string());
                i += 1;
            }
        } else {
            i += 1;
        }
    }
    m
}

pub fn build_profile() -> &'static str {
    if cfg!(debug_assertions) {
        "dev"
    } else {
        "release"
    }
}

pub fn case_seed(seed: u64, prop: &str, index: u64) -> u64 {
    prng::mix(&[seed, prng::hash_bytes(prop.as_bytes()), index])
}

fn main() {
    let argv: Vec<String> = std::env::args().collect();
    if argv.len() < 2 {
        eprintln!("usage: dtrmon shard|replay|count-distinct|meta ...");
        std::process::exit(3);
    }
    let a = args_map(&argv[2..]);
    realrun::install_panic_hook();
    match argv[1].as_str() {
        "meta" => {
            let prop = &a["prop"];
            let m = monitors::meta(prop).expect("unknown property");
            println!(
                "{}",
                json!({"id": m.id, "level": m.level, "rule": m.rule, "assumptions": m.assumptions,
                       "quick_cases": m.quick_cases, "thorough_cases": m.thorough_cases, "floor": m.floor})
            );
        }
        "shard" => {
            let prop = a["prop"].clone();
            let tier = a.get("tier").cloned().unwrap_or("quick".into());
            let seed: u64 = a.get("seed").map(|s| s.parse().unwrap()).unwrap_or(1);
            let shard: u64 = a.get("shard").map(|s| s.parse().unwrap()).unwrap_or(0);
            let nshards: u64 = a.get("nshards").map(|s| s.parse().unwrap()).unwrap_or(1);
            let cases: u64 = a["cases"].parse().unwrap();
            let cap: f64 = a.get("time-cap").map(|s| s.parse().unwrap()).unwrap_or(1e9);
            let out = a["out"].clone();
            let progress = a.get("progress").cloned();
            let t0 = Instant::now();
            let mut acc = acc::Acc {
                verbose: a.contains_key("verbose"),
                thorough: tier == "thorough",
                violation_log: Some(format!("{out}.violations.jsonl")),
                ..Default::default()
            };
            let mut extra = json!(null);
            if shard == 0 {
                if let Some(p) = &progress {
                    let _ = std::fs::write(p, format!("{prop} exhaustive 0\n"));
                }
                extra = monitors::run_exhaustive(&prop, &tier, &mut acc);
            }
            let mut idx = shard;
            let mut done = 0u64;
            let mut capped = false;
            while idx < cases {
                if done % 64 == 0 && t0.elapsed().as_secs_f64() > cap {
                    capped = true;
                    break;
                }
                let cs = case_seed(seed, &prop, idx);
                if let Some(p) = &progress {
                    if let Ok(mut f) = std::fs::File::create(p) {
                        let _ = writeln!(f, "{prop} gen {cs} {idx}");
                    }
                }
                monitors::run_case(&prop, idx, cs, &mut acc);
                idx += nshards;
                done += 1;
            }
            // hashes of non-trivial cases, for cross-shard distinct counting
            if let Some(hf) = a.get("hashes") {
                let mut bytes = Vec::with_capacity(acc.nontrivial.len() * 8);
                for h in &acc.nontrivial {
                    bytes.extend_from_slice(&h.to_le_bytes());
                }
                std::fs::write(hf, bytes).expect("write hashes");
            }
            if !acc.digests.is_empty() {
                let mut t = String::new();
                for (c, d) in &acc.digests {
                    t.push_str(&format!("{c} {d}\n"));
                }
                std::fs::write(format!("{out}.digests"), t).expect("write digests");
            }
            let rep = json!({
                "prop": prop, "tier": tier, "seed": seed, "shard": shard, "nshards": nshards,
                "profile": build_profile(), "time_capped": capped, "wall_s": t0.elapsed().as_secs_f64(),
                "report": acc.report(extra),
            });
            std::fs::write(&out, serde_json::to_string(&rep).unwrap()).expect("write report");
            if let Some(p) = &progress {
                let _ = std::fs::write(p, "done\n");
            }
        }
        "replay" => {
            let prop = a["prop"].clone();
            let mut acc = acc::Acc {
                verbose: true,
                thorough: a.get("tier").map(|t| t == "thorough").unwrap_or(false),
                ..Default::default()
            };
            let variant = a.get("variant").cloned().unwrap_or("gen".into());
            if variant == "exhaustive" {
                let tier = a.get("tier").cloned().unwrap_or("quick".into());
                monitors::run_exhaustive(&prop, &tier, &mut acc);
            } else {
                let cs: u64 = a["case-seed"].parse().unwrap();
                let index: u64 = a.get("index").map(|s| s.parse().unwrap()).unwrap_or(u64::MAX);
                monitors::run_case(&prop, index, cs, &mut acc);
            }
            println!("{}", serde_json::to_string_pretty(&acc.report(json!(null))).unwrap());
            std::process::exit(if acc.violation_count > 0 { 1 } else { 0 });
        }
        "miri-leg" => {
            // Small workload meant to run under `cargo +nightly miri run`: the same monitors,
            // a few cases each; Miri aborts the process on UB / leaks / invalid borrows.
            let prop = a["prop"].clone();
            let seed: u64 = a.get("seed").map(|s| s.parse().unwrap()).unwrap_or(1);
            let cases: u64 = a.get("cases").map(|s| s.parse().unwrap()).unwrap_or(10);
            let first: u64 = a.get("first").map(|s| s.parse().unwrap()).unwrap_or(0);
            let mut acc = acc::Acc::default();
            for idx in first..first + cases {
                // C07's first indices are its enumerated space; use generated cases instead
                let i = if prop == "C07" { idx + 100_000 } else { idx };
                monitors::run_case(&prop, i, case_seed(seed ^ 0x4d495249, &prop, i), &mut acc);
            }
            println!(
                "MIRI-LEG {}",
                json!({"prop": prop, "cases": acc.cases, "evaluations": acc.evaluations, "held": acc.held,
                       "violations": acc.violation_count, "violation_sigs": acc.violation_sigs, "events": acc.events})
            );
            std::process::exit(if acc.violation_count > 0 { 1 } else { 0 });
        }
        "probe-chain" => {
            // One string per process: a FLAT chain of n binary operators (no nesting at all in
            // the text). Exits 0 if from_str returns; the process dies if the native stack is
            // exhausted. `--shape` picks the operator pattern, `--stack-mb` the thread's stack.
            use std::str::FromStr;
            let n: usize = a["n"].parse().unwrap();
            let shape = a.get("shape").cloned().unwrap_or("add".into());
            let mb: usize = a.get("stack-mb").map(|s| s.parse().unwrap()).unwrap_or(8);
            let run = a.contains_key("run");
            let text = match shape.as_str() {
                "add" => format!("A\n({}1)\n", "1+".repeat(n)),
                "unary" => format!("A\n({}1)\n", "-".repeat(n)),
                "let" => format!("A\nlet a = {}1;\n1\n", "1*".repeat(n)),
                _ => format!("A\n({}1)\n", "1|".repeat(n)),
            };
            let h = std::thread::Builder::new()
                .stack_size(mb << 20)
                .spawn(move || match digital_test_runner::ParsedTestCase::from_str(&text) {
                    Err(_) => "parse error".to_string(),
                    Ok(p) => {
                        if !run {
                            return "parsed".to_string();
                        }
                        let tc = p.with_signals(vec![digital_test_runner::Signal::output("A", 64)]).unwrap();
                        let n = tc.try_iter_static().map(|it| it.count()).unwrap_or(0);
                        format!("parsed and iterated {n} rows")
                    }
                })
                .unwrap();
            let r = h.join();
            println!("PROBE-CHAIN n={n} shape={shape} stack_mb={mb} returned={r:?}");
        }
        "count-distinct" => {
            let mut set = std::collections::HashSet::new();
            for f in &argv[2..] {
                if let Ok(b) = std::fs::read(f) {
                    for c in b.chunks_exact(8) {
                        set.insert(u64::from_le_bytes(c.try_into().unwrap()));
                    }
                }
            }
            println!("{}", set.len());
        }
        other => {
            eprintln!("unknown command {other}");
            std::process::exit(3);
        }
    }
}
