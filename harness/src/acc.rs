//! Per-shard accumulator of what the monitors observed, and its JSON report.

use crate::compare::Finding;
use serde_json::{json, Value};
use std::collections::{BTreeMap, HashSet};

pub struct ViolationRec {
    pub case_seed: u64,
    pub index: u64,
    pub variant: String,
    pub finding: Finding,
    pub case: Value,
}

#[derive(Default)]
pub struct Acc {
    pub cases: u64,
    /// executions of the real crate (one parse+bind+iterate pipeline = 1)
    pub evaluations: u64,
    pub held: u64,
    pub nontrivial: HashSet<u64>,
    pub distinct: HashSet<u64>,
    pub inconclusive: BTreeMap<String, u64>,
    pub tags: BTreeMap<String, u64>,
    pub events: BTreeMap<String, u64>,
    pub violations: Vec<ViolationRec>,
    pub violation_count: u64,
    pub violation_sigs: BTreeMap<String, u64>,
    pub samples: Vec<Value>,
    pub verbose: bool,
    /// index of the case being executed (set by the shard loop / replay)
    pub cur_index: u64,
    pub thorough: bool,
    /// (case seed, digest) pairs compared across processes by the orchestrator
    pub digests: Vec<(u64, u64)>,
    /// append-only side file: one JSON line per recorded violation, written as it happens, so
    /// that the findings of a shard that is later killed (stuck case) are not lost
    pub violation_log: Option<String>,
}

impl Acc {
    pub fn tag(&mut self, t: &str) {
        *self.tags.entry(t.to_string()).or_insert(0) += 1;
    }
    pub fn tag_n(&mut self, t: &str, n: u64) {
        if n > 0 {
            *self.tags.entry(t.to_string()).or_insert(0) += n;
        }
    }
    pub fn event(&mut self, t: &str, n: u64) {
        *self.events.entry(t.to_string()).or_insert(0) += n;
    }
    pub fn inconclusive(&mut self, why: &str) {
        // collapse numbers so that reasons aggregate
        let key: String = why.chars().take(60).collect();
        *self.inconclusive.entry(key).or_insert(0) += 1;
    }
    pub fn violation(&mut self, case_seed: u64, variant: &str, f: Finding, case: Value) {
        self.violation_count += 1;
        let n = self.violation_sigs.entry(f.signature.clone()).or_insert(0);
        *n += 1;
        if *n <= 3 && self.violations.len() < 60 {
            if self.verbose {
                eprintln!("VIOLATION seed={case_seed} variant={variant} {} :: {}", f.signature, f.detail);
            }
            if let Some(path) = &self.violation_log {
                use std::io::Write;
                if let Ok(mut fh) = std::fs::OpenOptions::new().create(true).append(true).open(path) {
                    let _ = writeln!(
                        fh,
                        "{}",
                        json!({"case_seed": case_seed.to_string(), "index": self.cur_index.to_string(), "variant": variant,
                               "signature": f.signature, "detail": f.detail, "case": case})
                    );
                }
            }
            self.violations.push(ViolationRec {
                case_seed,
                index: self.cur_index,
                variant: variant.to_string(),
                finding: f,
                case,
            });
        }
    }
    pub fn sample(&mut self, v: impl FnOnce() -> Value) {
        if self.samples.len() < 3 {
            self.samples.push(v());
        }
    }
    pub fn report(&self, extra: Value) -> Value {
        json!({
            "cases": self.cases,
            "evaluations": self.evaluations,
            "held": self.held,
            "nontrivial_local": self.nontrivial.len(),
            "distinct_local": self.distinct.len(),
            "inconclusive": self.inconclusive,
            "tags": self.tags,
            "events": self.events,
            "violation_count": self.violation_count,
            "violation_sigs": self.violation_sigs,
            "violations": self.violations.iter().map(|v| json!({
                "case_seed": v.case_seed.to_string(),
                "index": v.index.to_string(),
                "variant": v.variant,
                "signature": v.finding.signature,
                "detail": v.finding.detail,
                "case": v.case,
            })).collect::<Vec<_>>(),
            "samples": self.samples,
            "extra": extra,
        })
    }
}
