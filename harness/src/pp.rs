//! Printer: model Program -> source text. Inserts exactly the parentheses required by the
//! precedence / associativity table *as stated in property C08* (or redundant ones),
//! chooses the layout, and records the 1-based line of every row item it prints.

use crate::model::*;
use serde::{Deserialize, Serialize};
use std::collections::HashMap;

#[derive(Clone, Debug, PartialEq, Eq, Hash, Serialize, Deserialize)]
pub struct Layout {
    /// blank lines before the header
    pub leading_blank: usize,
    /// 0 = LF, 1 = CRLF, 2 = mixed (alternating by line parity/hash)
    pub eol: u8,
    pub trailing_newline: bool,
    /// 0 none, 1 two spaces per depth, 2 one tab per depth, 3 ragged
    pub indent: u8,
    pub redundant_parens: bool,
    /// no optional blanks inside expressions / statements
    pub tight: bool,
    /// entry separator: 0 single space, 1 tab, 2 several spaces, 3 mixed
    pub sep: u8,
    /// per-mille of body lines that get a trailing comment
    pub trailing_comments: u32,
    /// salt for the per-line pseudo-random layout choices
    pub salt: u64,
    /// per-mille of lines that carry stray CRs (not part of a CRLF pair) in the blank run
    /// before their terminator: `1 0\r \n`, `1 0\r\r\n` - blanks, not line breaks
    #[serde(default)]
    pub stray_cr: u32,
}

impl Layout {
    pub fn plain() -> Self {
        Layout {
            leading_blank: 0,
            eol: 0,
            trailing_newline: true,
            indent: 0,
            redundant_parens: false,
            tight: false,
            sep: 0,
            trailing_comments: 0,
            salt: 0,
            stray_cr: 0,
        }
    }
}

#[derive(Clone, Debug)]
pub struct Printed {
    pub text: String,
    /// row id -> 1-based line number
    pub row_lines: HashMap<usize, usize>,
    pub n_lines: usize,
}

pub fn num_text(v: i64, r: Radix) -> String {
    debug_assert!(v >= 0);
    match r {
        Radix::Dec => format!("{v}"),
        Radix::Hex(ux, ud) => {
            let d = if ud {
                format!("{v:X}")
            } else {
                format!("{v:x}")
            };
            format!("0{}{}", if ux { 'X' } else { 'x' }, d)
        }
        Radix::Bin(ub) => format!("0{}{v:b}", if ub { 'B' } else { 'b' }),
        Radix::Oct => format!("0{v:o}"),
    }
}

pub struct ExprPrinter {
    pub redundant: bool,
    pub tight: bool,
}

impl ExprPrinter {
    pub fn print(&self, e: &Expr) -> String {
        let mut s = String::new();
        self.go(e, &mut s);
        s
    }
    fn sp(&self, s: &mut String) {
        if !self.tight {
            s.push(' ');
        }
    }
    fn wrapped(&self, e: &Expr, s: &mut String) {
        s.push('(');
        self.go(e, s);
        s.push(')');
    }
    fn is_compound(e: &Expr) -> bool {
        matches!(e, Expr::Bin(..) | Expr::Un(..))
    }
    fn go(&self, e: &Expr, s: &mut String) {
        match e {
            Expr::Num(v, r) => s.push_str(&num_text(*v, *r)),
            Expr::Ident(n) => s.push_str(n),
            Expr::Group(inner) => self.wrapped(inner, s),
            Expr::Un(op, inner) => {
                s.push_str(op.text());
                let need = matches!(**inner, Expr::Bin(..))
                    || (self.redundant && Self::is_compound(inner));
                if need {
                    self.wrapped(inner, s)
                } else {
                    self.go(inner, s)
                }
            }
            Expr::Bin(op, l, r) => {
                let lneed = match &**l {
                    Expr::Bin(lop, ..) => lop.level() > op.level(),
                    _ => false,
                } || (self.redundant && Self::is_compound(l));
                let rneed = match &**r {
                    Expr::Bin(rop, ..) => rop.level() >= op.level(),
                    _ => false,
                } || (self.redundant && Self::is_compound(r));
                if lneed {
                    self.wrapped(l, s)
                } else {
                    self.go(l, s)
                }
                self.sp(s);
                s.push_str(op.text());
                self.sp(s);
                if rneed {
                    self.wrapped(r, s)
                } else {
                    self.go(r, s)
                }
            }
            Expr::Ite(c, a, b) => {
                s.push_str("ite(");
                self.go(c, s);
                s.push(',');
                self.sp(s);
                self.go(a, s);
                s.push(',');
                self.sp(s);
                self.go(b, s);
                s.push(')');
            }
            Expr::Random(a) => {
                s.push_str("random(");
                self.go(a, s);
                s.push(')');
            }
            Expr::SignExt(a, b) => {
                s.push_str("signExt(");
                self.go(a, s);
                s.push(',');
                self.go(b, s);
                s.push(')');
            }
        }
    }
}

struct P<'a> {
    lay: &'a Layout,
    ep: ExprPrinter,
    out: String,
    line: usize,
    rows: HashMap<usize, usize>,
    /// lines (text without terminator)
    pending_last: bool,
}

fn h(salt: u64, a: u64) -> u64 {
    crate::prng::mix(&[salt, a])
}

impl<'a> P<'a> {
    fn eol(&mut self) {
        if self.lay.stray_cr > 0 && (h(self.lay.salt ^ 0x77, self.line as u64) % 1000) < self.lay.stray_cr as u64 {
            let pool = ["\r ", "\r\r", " \r\t", "\r \r "];
            self.out.push_str(pool[(h(self.lay.salt ^ 0x78, self.line as u64) % pool.len() as u64) as usize]);
        }
        let crlf = match self.lay.eol {
            0 => false,
            1 => true,
            _ => h(self.lay.salt, self.line as u64) & 1 == 1,
        };
        if crlf {
            self.out.push_str("\r\n");
        } else {
            self.out.push('\n');
        }
        self.line += 1;
    }
    fn start_line(&mut self) {
        if self.pending_last {
            self.eol();
        }
        self.pending_last = true;
    }
    fn indent(&mut self, depth: usize) {
        match self.lay.indent {
            0 => {}
            1 => {
                for _ in 0..depth {
                    self.out.push_str("  ")
                }
            }
            2 => {
                for _ in 0..depth {
                    self.out.push('\t')
                }
            }
            _ => {
                let k = (h(self.lay.salt ^ 0x11, self.line as u64) % 5) as usize;
                for i in 0..k {
                    self.out.push(if (i + self.line) % 3 == 0 { '\t' } else { ' ' });
                }
            }
        }
    }
    fn maybe_comment(&mut self) {
        if self.lay.trailing_comments > 0
            && (h(self.lay.salt ^ 0x22, self.line as u64) % 1000) < self.lay.trailing_comments as u64
        {
            let pool = [
                " # c",
                "# tight",
                "\t#\tloop(i,2) end loop",
                " # ünï ☃ code",
                " ## # ;",
                " #",
                " # cr inside\rthe comment 1 (",
            ];
            let c = pool[(h(self.lay.salt ^ 0x33, self.line as u64) % pool.len() as u64) as usize];
            self.out.push_str(c);
        }
    }
    fn sep(&mut self, i: usize) {
        match self.lay.sep {
            0 => self.out.push(' '),
            1 => self.out.push('\t'),
            2 => self.out.push_str("   "),
            _ => {
                let k = h(self.lay.salt ^ 0x44, (self.line * 131 + i) as u64) % 4;
                self.out
                    .push_str(["  ", "\t", " \t ", " "][k as usize]);
            }
        }
    }
    fn entries(&mut self, es: &[Entry]) {
        for (i, e) in es.iter().enumerate() {
            if i > 0 {
                self.sep(i);
            }
            match e {
                Entry::Lit(v, r) => self.out.push_str(&num_text(*v, *r)),
                Entry::Paren(x) => {
                    self.out.push('(');
                    let t = self.ep.print(x);
                    self.out.push_str(&t);
                    self.out.push(')');
                }
                Entry::Bits(k, x) => {
                    let t = self.ep.print(x);
                    if self.lay.tight {
                        self.out.push_str(&format!("bits({k},{t})"));
                    } else {
                        self.out.push_str(&format!("bits({k}, {t})"));
                    }
                }
                Entry::X(l) => self.out.push(if *l { 'x' } else { 'X' }),
                Entry::Z(l) => self.out.push(if *l { 'z' } else { 'Z' }),
                Entry::C(l) => self.out.push(if *l { 'c' } else { 'C' }),
            }
        }
    }
    fn items(&mut self, items: &[Item], depth: usize) {
        let sp = if self.lay.tight { "" } else { " " };
        for it in items {
            self.start_line();
            match it {
                Item::Blank => {
                    if h(self.lay.salt ^ 0x55, self.line as u64) % 4 == 0 {
                        self.out.push_str(" \t");
                    }
                    continue;
                }
                Item::Comment(t) => {
                    self.indent(depth);
                    self.out.push('#');
                    self.out.push_str(t);
                    continue;
                }
                _ => {}
            }
            self.indent(depth);
            match it {
                Item::Let(n, e) => {
                    let t = self.ep.print(e);
                    self.out.push_str(&format!("let {n}{sp}={sp}{t};"));
                    self.maybe_comment();
                }
                Item::Declare(n, e) => {
                    let t = self.ep.print(e);
                    self.out.push_str(&format!("declare {n}{sp}={sp}{t};"));
                    self.maybe_comment();
                }
                Item::ResetRandom => {
                    self.out.push_str("resetRandom;");
                    self.maybe_comment();
                }
                Item::Row(id, es) => {
                    self.rows.insert(*id, self.line);
                    self.entries(es);
                    self.maybe_comment();
                }
                Item::Repeat(id, b, es) => {
                    self.rows.insert(*id, self.line);
                    let t = self.ep.print(b);
                    self.out.push_str(&format!("repeat{sp}({t}) "));
                    self.entries(es);
                    self.maybe_comment();
                }
                Item::Loop(v, b, inner) => {
                    let t = self.ep.print(b);
                    self.out.push_str(&format!("loop{sp}({v},{sp}{t})"));
                    self.maybe_comment();
                    self.items(inner, depth + 1);
                    self.start_line();
                    self.indent(depth);
                    self.out.push_str("end loop");
                    self.maybe_comment();
                }
                Item::While(c, inner) => {
                    let t = self.ep.print(c);
                    self.out.push_str(&format!("while{sp}({t})"));
                    self.maybe_comment();
                    self.items(inner, depth + 1);
                    self.start_line();
                    self.indent(depth);
                    self.out.push_str("end while");
                    self.maybe_comment();
                }
                Item::Blank | Item::Comment(_) => unreachable!(),
            }
        }
    }
}

pub fn print(p: &Program, lay: &Layout) -> Printed {
    let mut pr = P {
        lay,
        ep: ExprPrinter {
            redundant: lay.redundant_parens,
            tight: lay.tight,
        },
        out: String::new(),
        line: 1,
        rows: HashMap::new(),
        pending_last: false,
    };
    for _ in 0..lay.leading_blank {
        pr.start_line();
        if h(lay.salt ^ 0x66, pr.line as u64) % 3 == 0 {
            pr.out.push_str("  ");
        }
    }
    pr.start_line();
    // header
    for (i, n) in p.header.iter().enumerate() {
        if i > 0 {
            pr.sep(i);
        }
        pr.out.push_str(n);
    }
    pr.items(&p.items, 0);
    if lay.trailing_newline {
        pr.eol();
    }
    let n_lines = pr.line;
    Printed {
        text: pr.out,
        row_lines: pr.rows,
        n_lines,
    }
}

/// Plain rendering of a program for evidence samples / replay files.
pub fn print_plain(p: &Program) -> String {
    print(p, &Layout::plain()).text
}
