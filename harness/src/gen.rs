//! Grammar-directed generator of (Program, signal list, device script) cases.
//! One generator, many knobs; each property picks a profile (a `GenCfg`).

use crate::model::*;
use crate::pp::Layout;
use crate::prng::Prng;

#[derive(Clone, Debug)]
pub struct GenCfg {
    pub n_in: (usize, usize),
    pub n_out: (usize, usize),
    pub n_bidir: (usize, usize),
    /// 0 = narrow (1..8), 1 = mixed (1..62), 2 = full (1..64, heavy on 31/32/33/62/63/64), 3 = all 64 on outputs
    pub widths: u8,
    pub shuffle_signals: bool,
    /// per-mille probability that a signal is left out of the header
    pub header_drop: u32,
    pub header_shuffle: bool,
    pub z_defaults: u32,
    pub odd_names: u32,
    pub max_depth: usize,
    pub block_items: (usize, usize),
    pub w_let: u32,
    pub w_row: u32,
    pub w_repeat: u32,
    pub w_loop: u32,
    pub w_while: u32,
    pub w_reset: u32,
    pub w_blank: u32,
    pub w_comment: u32,
    pub n_declares: (usize, usize),
    /// row entry weights for input columns: lit, expr, X, Z, C
    pub w_in: [u32; 5],
    /// row entry weights for expected columns: lit, expr, X, Z
    pub w_exp: [u32; 4],
    /// per-mille chance to cover a run of columns with bits(k, e)
    pub bits_entries: u32,
    pub expr_depth: usize,
    /// per-mille chance that an identifier leaf reads a device output
    pub reads: u32,
    pub allow_div: bool,
    pub allow_random: u32,
    /// boundary literals / values
    pub big_values: bool,
    /// hazards for C10: div by zero, random(<2), signExt, unassigned vars
    pub hazards: u32,
    /// per-mille chance of a non-positive loop bound
    pub nonpos_bounds: u32,
    /// per-mille chance a loop bound is derived from a device output
    pub device_bounds: u32,
    /// name pool for variables overlaps with output / virtual names
    pub clash_names: bool,
    /// 0 = full layout identity order, 1 = random permutation of all, 2 = random subset + permutation
    pub layout_mode: u8,
    /// 0 unique, 1 mixed(z,x,edge), 2 small, 3 unique-narrow
    pub value_mode: u8,
    pub mixed_rates: (u32, u32, u32),
    pub override_write: u32,
    pub random_layout: bool,
    /// max loop bound magnitude
    pub max_bound: i64,
    /// radix variety for literals
    pub radix_variety: bool,
    /// per-mille: let may appear with complex expression reading counters
    pub ite: u32,
    /// per-mille chance that a row is a near-copy of the previous row in its block
    pub row_repeat: u32,
    /// per-mille chance that an input is 1 bit wide regardless of `widths`
    pub one_bit_inputs: u32,
    /// per-mille chance that the signal list itself contains 1-2 virtual signals
    pub list_virtuals: u32,
}

impl GenCfg {
    pub fn base() -> Self {
        GenCfg {
            n_in: (1, 3),
            n_out: (1, 3),
            n_bidir: (0, 1),
            widths: 1,
            shuffle_signals: true,
            header_drop: 150,
            header_shuffle: true,
            z_defaults: 100,
            odd_names: 100,
            max_depth: 3,
            block_items: (1, 5),
            w_let: 25,
            w_row: 40,
            w_repeat: 6,
            w_loop: 14,
            w_while: 6,
            w_reset: 0,
            w_blank: 3,
            w_comment: 3,
            n_declares: (0, 1),
            w_in: [50, 40, 0, 3, 0],
            w_exp: [40, 35, 20, 5],
            bits_entries: 60,
            expr_depth: 3,
            reads: 150,
            allow_div: true,
            allow_random: 0,
            big_values: false,
            hazards: 0,
            nonpos_bounds: 200,
            device_bounds: 80,
            clash_names: true,
            layout_mode: 2,
            value_mode: 0,
            mixed_rates: (30, 30, 100),
            override_write: 500,
            random_layout: true,
            max_bound: 3,
            radix_variety: true,
            ite: 60,
            row_repeat: 0,
            one_bit_inputs: 0,
            list_virtuals: 0,
        }
    }
}

#[derive(Clone, Debug)]
enum ColRole {
    In(usize),
    /// expected column of config signal
    Exp(usize),
    /// expected column of the k-th declared virtual signal
    Virt(usize),
}

#[derive(Clone, Debug)]
struct Col {
    name: String,
    role: ColRole,
}

const IN_NAMES: [&str; 12] = [
    "A", "B", "CLK", "EN", "S", "D0", "Din", "RST", "a_in", "Cin", "sel", "LD",
];
const OUT_NAMES: [&str; 16] = [
    "Q", "Y", "OUT", "TC", "DONE", "Z_o", "q", "Sum", "Cout", "R", "n", "P",
    // plain outputs whose names look like the `_out` column of a (prefix of a) bidirectional signal
    "DRDY_out", "Mx_out", "IO2", "BUSY_out",
];
// (a bidirectional signal may itself be called `<x>_out`: its expected column is `<x>_out_out`)
const BIDIR_NAMES: [&str; 9] = ["D", "IO", "BUS", "DQ", "M", "DQS", "IO2x", "P_out", "W_out_out"];
const ODD_NAMES: [&str; 11] = [
    "ALU-~RESET",
    "Q[0]",
    "é",
    "BUS-CLK",
    "x.y",
    "7seg",
    "loop",
    "A&B",
    "A#B",
    "#Q",
    "(P)",
];
const VIRT_NAMES: [&str; 5] = ["V", "W", "chk", "U", "V2"];
// (X, Z, C, x, z, c are ordinary identifiers inside expressions; only a bare row entry means
// don't-care / high-Z / clock)
const VAR_NAMES: [&str; 14] = ["a", "b", "i", "j", "k", "v", "m", "p", "cnt", "val", "X", "Z", "c", "C"];

pub fn is_identlike(s: &str) -> bool {
    let mut ch = s.chars();
    match ch.next() {
        Some(c) if c.is_ascii_alphabetic() || c == '_' => {}
        _ => return false,
    }
    let kw = [
        "end",
        "loop",
        "repeat",
        "bits",
        "let",
        "resetRandom",
        "while",
        "declare",
        "program",
        "init",
        "memory",
        "def",
        "call",
        "random",
        "ite",
        "signExt",
    ];
    s.chars().all(|c| c.is_ascii_alphanumeric() || c == '_') && !kw.contains(&s)
}

pub struct Gen<'a> {
    pub r: &'a mut Prng,
    pub cfg: &'a GenCfg,
    sigs: Vec<Sig>,
    cols: Vec<Col>,
    /// names of outputs that expressions may read (in device layout, ident-like)
    readable: Vec<String>,
    /// definitely-assigned variable names, per frame
    frames: Vec<Vec<String>>,
    fresh: usize,
    row_id: usize,
    virt_names: Vec<String>,
    /// names introduced (maybe unassigned) by while bodies — only used in hazard mode
    maybe: Vec<(usize, String)>,
    in_while: usize,
    loop_counters: Vec<String>,
    /// while-loop counters: never chosen as the target of a generated `let`
    protected: Vec<String>,
    last_row: Option<Vec<Entry>>,
    /// > 0 inside the body of a while whose condition draws from random(): a resetRandom there
    /// would make the condition draw the same value for ever
    no_reset: usize,
    /// first bindings of while counters that were moved to the top of the program
    hoisted: Vec<Item>,
}

impl<'a> Gen<'a> {
    fn between(&mut self, (lo, hi): (usize, usize)) -> usize {
        lo + self.r.below(hi - lo + 1)
    }

    fn width(&mut self, is_out: bool) -> usize {
        match self.cfg.widths {
            0 => 1 + self.r.below(8),
            1 => match self.r.below(5) {
                0 => 1,
                1 => 1 + self.r.below(8),
                2 => 8 * (1 + self.r.below(4)),
                _ => 1 + self.r.below(62),
            },
            2 => *self
                .r
                .pick(&[1, 2, 7, 8, 16, 31, 32, 33, 48, 62, 63, 64, 64, 63]),
            _ => {
                if is_out {
                    64
                } else {
                    1 + self.r.below(62)
                }
            }
        }
    }

    fn default_val(&mut self, bits: usize) -> InVal {
        if self.r.chance(self.cfg.z_defaults, 1000) {
            InVal::Z
        } else {
            let m = if bits >= 62 { 1 << 20 } else { 1i64 << bits };
            if bits < 62 && self.r.chance(50, 1000) {
                // a default that does not fit the signal: it is handed to the driver as it is,
                // at start-up and in every row alike
                return InVal::V(*self.r.pick(&[-1, m | 5, (m << 3) | 1, i64::MIN, -m]));
            }
            match self.r.below(3) {
                0 => InVal::V(0),
                1 => InVal::V(1.min(m - 1)),
                _ => InVal::V(self.r.range(0, m - 1)),
            }
        }
    }

    fn gen_config(&mut self) {
        let n_in = self.between(self.cfg.n_in);
        let n_out = self.between(self.cfg.n_out);
        let n_bi = self.between(self.cfg.n_bidir);
        let mut used: Vec<String> = vec![];
        let mut sigs = vec![];
        let mut take = |r: &mut Prng, pool: &[&str], odd: u32, used: &mut Vec<String>| -> String {
            for _ in 0..50 {
                let n = if r.chance(odd, 1000) {
                    r.pick(&ODD_NAMES).to_string()
                } else {
                    r.pick(pool).to_string()
                };
                // a name must not collide with another, nor with another's `_out` form
                if !used.iter().any(|u| {
                    *u == n || *u == format!("{n}_out") || format!("{u}_out") == n
                }) {
                    used.push(n.clone());
                    return n;
                }
            }
            let n = format!("s{}", used.len());
            used.push(n.clone());
            n
        };
        for _ in 0..n_in {
            let name = take(self.r, &IN_NAMES, self.cfg.odd_names, &mut used);
            let bits = if self.r.chance(self.cfg.one_bit_inputs, 1000) {
                1
            } else {
                self.width(false)
            };
            let d = self.default_val(bits);
            sigs.push(Sig {
                name,
                bits,
                kind: SigKind::In(d),
            });
        }
        for _ in 0..n_out {
            let name = take(self.r, &OUT_NAMES, self.cfg.odd_names / 2, &mut used);
            let bits = self.width(true);
            sigs.push(Sig {
                name,
                bits,
                kind: SigKind::Out,
            });
        }
        for _ in 0..n_bi {
            let name = take(self.r, &BIDIR_NAMES, 0, &mut used);
            let bits = self.width(true);
            let d = self.default_val(bits);
            sigs.push(Sig {
                name,
                bits,
                kind: SigKind::Bidir(d),
            });
        }
        // now and then a plain output that is literally named like the `_out` column of a
        // bidirectional signal: one header column is then the expected column of both
        if self.r.chance(40, 1000) {
            if let Some(b) = sigs.iter().find(|s| matches!(s.kind, SigKind::Bidir(_))).map(|s| s.name.clone()) {
                let name = format!("{b}_out");
                if !sigs.iter().any(|s| s.name == name) {
                    let bits = self.width(true);
                    sigs.push(Sig { name, bits, kind: SigKind::Out });
                }
            }
        }
        // ... or like that column's name with one more `_out` (which means nothing special)
        if self.r.chance(40, 1000) {
            if let Some(b) = sigs.iter().find(|s| matches!(s.kind, SigKind::Bidir(_))).map(|s| s.name.clone()) {
                let name = format!("{b}_out_out");
                if !sigs.iter().any(|s| s.name == name || format!("{}_out", s.name) == name) {
                    let bits = self.width(true);
                    sigs.push(Sig { name, bits, kind: SigKind::Out });
                }
            }
        }
        // a look-alike twin of an output-capable signal: another output of the same width whose
        // name equals the first one's after some normalisation a careless comparison might apply
        // (non-alphanumerics to `_`, a `~` / `_` prefix, a trailing `_`, full-width letters)
        if self.r.chance(40, 1000) {
            let outs: Vec<usize> = (0..sigs.len()).filter(|&i| sigs[i].is_output()).collect();
            if !outs.is_empty() {
                let src = sigs[*self.r.pick(&outs)].clone();
                let n = &src.name;
                let twin = match self.r.below(6) {
                    0 => n.chars().map(|c| if c.is_ascii_alphanumeric() { c } else { '_' }).collect::<String>(),
                    1 => format!("~{n}"),
                    2 => format!("_{n}"),
                    3 => format!("{n}_"),
                    4 => n.chars().map(|c| if c.is_ascii_uppercase() { char::from_u32(c as u32 - 'A' as u32 + 0xFF21).unwrap() } else { c }).collect::<String>(),
                    _ => n.replace(['-', '.'], "_"),
                };
                let clash = |a: &str, b: &str| a == b || format!("{a}_out") == b || format!("{b}_out") == a;
                if twin != *n && !twin.is_empty() && !sigs.iter().any(|s| clash(&s.name, &twin)) {
                    sigs.push(Sig { name: twin, bits: src.bits, kind: SigKind::Out });
                }
            }
        }
        if self.cfg.shuffle_signals {
            self.r.shuffle(&mut sigs);
        }
        self.sigs = sigs;
    }

    fn gen_layout_and_readable(&mut self) -> Vec<usize> {
        let outs: Vec<usize> = (0..self.sigs.len())
            .filter(|&i| self.sigs[i].is_output())
            .collect();
        let mut lay: Vec<usize> = match self.cfg.layout_mode {
            0 | 1 => outs.clone(),
            _ => outs
                .iter()
                .copied()
                .filter(|_| self.r.chance(700, 1000))
                .collect(),
        };
        if self.cfg.layout_mode >= 1 {
            self.r.shuffle(&mut lay);
        }
        self.readable = lay
            .iter()
            .map(|&i| self.sigs[i].name.clone())
            .filter(|n| is_identlike(n))
            .collect();
        lay
    }

    fn gen_header(&mut self, n_virt: usize) {
        let mut cols = vec![];
        for (i, s) in self.sigs.iter().enumerate() {
            let keep = !self.r.chance(self.cfg.header_drop, 1000);
            match s.kind {
                SigKind::In(_) => {
                    if keep {
                        cols.push(Col {
                            name: s.name.clone(),
                            role: ColRole::In(i),
                        })
                    }
                }
                SigKind::Out | SigKind::Virtual(_) => {
                    if keep {
                        cols.push(Col {
                            name: s.name.clone(),
                            role: ColRole::Exp(i),
                        })
                    }
                }
                SigKind::Bidir(_) => {
                    if keep {
                        cols.push(Col {
                            name: s.name.clone(),
                            role: ColRole::In(i),
                        })
                    }
                    if !self.r.chance(self.cfg.header_drop + 150, 1000) {
                        cols.push(Col {
                            name: format!("{}_out", s.name),
                            role: ColRole::Exp(i),
                        })
                    }
                }
            }
        }
        for k in 0..n_virt {
            if !self.r.chance(self.cfg.header_drop + 100, 1000) {
                cols.push(Col {
                    name: self.virt_names[k].clone(),
                    role: ColRole::Virt(k),
                });
            }
        }
        // a name can be wanted twice (a plain output named like a bidirectional signal's `_out`
        // column): the header has it once
        let mut seen: Vec<String> = vec![];
        cols.retain(|c| {
            if seen.contains(&c.name) {
                false
            } else {
                seen.push(c.name.clone());
                true
            }
        });
        if cols.is_empty() {
            // at least one column: take the first signal
            let s = &self.sigs[0];
            cols.push(Col {
                name: s.name.clone(),
                role: if s.is_input() {
                    ColRole::In(0)
                } else {
                    ColRole::Exp(0)
                },
            });
        }
        if self.cfg.header_shuffle {
            self.r.shuffle(&mut cols);
        }
        self.cols = cols;
    }

    // ----------------------------------------------------------------- expressions

    fn radix(&mut self) -> Radix {
        if !self.cfg.radix_variety || self.r.chance(700, 1000) {
            Radix::Dec
        } else {
            match self.r.below(4) {
                0 => Radix::Hex(self.r.chance(1, 2), self.r.chance(1, 2)),
                1 => Radix::Bin(self.r.chance(1, 2)),
                2 => Radix::Oct,
                _ => Radix::Dec,
            }
        }
    }

    pub fn literal(&mut self) -> Expr {
        let v = if self.cfg.big_values && self.r.chance(250, 1000) {
            let v = self.r.interesting_i64();
            if v < 0 {
                // negative numbers are spelled with unary minus (MIN has no literal form)
                if v == i64::MIN {
                    let rx = self.radix();
                    return Expr::Bin(
                        BinOp::Sub,
                        Box::new(Expr::Un(UnOp::Neg, Box::new(Expr::Num(i64::MAX, rx)))),
                        Box::new(Expr::Num(1, Radix::Dec)),
                    );
                }
                let rx = self.radix();
                return Expr::Un(UnOp::Neg, Box::new(Expr::Num(-v, rx)));
            }
            v
        } else {
            match self.r.below(6) {
                0 => 0,
                1 => 1,
                2 => self.r.range(2, 9),
                3 => self.r.range(0, 3),
                4 => self.r.range(10, 300),
                _ => self.r.range(0, 15),
            }
        };
        let rx = self.radix();
        Expr::Num(v, rx)
    }

    fn vars_in_scope(&self) -> Vec<String> {
        let mut v: Vec<String> = vec![];
        for f in &self.frames {
            for n in f {
                if !v.contains(n) {
                    v.push(n.clone());
                }
            }
        }
        v
    }

    fn leaf(&mut self, allow_reads: bool) -> Expr {
        let vars = self.vars_in_scope();
        let can_read = allow_reads && !self.readable.is_empty();
        let roll = self.r.below(1000) as u32;
        if can_read && roll < self.cfg.reads {
            return Expr::Ident(self.r.pick(&self.readable).clone());
        }
        if self.cfg.hazards > 0 && !self.maybe.is_empty() && self.r.chance(self.cfg.hazards, 1000) {
            return Expr::Ident(self.r.pick(&self.maybe).1.clone());
        }
        if !vars.is_empty() && self.r.chance(550, 1000) {
            return Expr::Ident(self.r.pick(&vars).clone());
        }
        self.literal()
    }

    fn nonzero_divisor(&mut self, depth: usize, allow_reads: bool) -> Expr {
        if self.cfg.hazards > 0 && self.r.chance(self.cfg.hazards, 1000) {
            // hazard: a divisor that is, or may become, zero
            return match self.r.below(3) {
                0 => Expr::Num(0, Radix::Dec),
                1 => self.leaf(allow_reads),
                _ => Expr::Group(Box::new(Expr::Bin(
                    BinOp::Sub,
                    Box::new(self.leaf(allow_reads)),
                    Box::new(self.leaf(allow_reads)),
                ))),
            };
        }
        if self.r.chance(600, 1000) || depth == 0 {
            Expr::Num(self.r.range(1, 9), self.radix())
        } else {
            let inner = self.expr(depth - 1, allow_reads);
            Expr::Group(Box::new(Expr::Bin(
                BinOp::Or,
                Box::new(inner),
                Box::new(Expr::Num(1, Radix::Dec)),
            )))
        }
    }

    pub fn expr(&mut self, depth: usize, allow_reads: bool) -> Expr {
        if depth == 0 || self.r.chance(250, 1000) {
            return self.leaf(allow_reads);
        }
        let roll = self.r.below(1000) as u32;
        if roll < self.cfg.ite {
            let c = self.expr(depth - 1, allow_reads);
            let a = self.expr(depth - 1, allow_reads);
            let b = self.expr(depth - 1, allow_reads);
            return Expr::Ite(Box::new(c), Box::new(a), Box::new(b));
        }
        if self.cfg.allow_random > 0 && self.r.chance(self.cfg.allow_random, 1000) {
            let b = self.random_bound(depth - 1, allow_reads);
            return Expr::Random(Box::new(b));
        }
        if self.r.chance(30, 1000) {
            // the same operand twice, `e OP e`: a shape that invites a simplification at parse
            // time - wrong when `e` draws from random(), reads a Z / X output or fails
            let e = self.expr(depth - 1, allow_reads);
            let op = *self.r.pick(&[
                BinOp::Sub, BinOp::Xor, BinOp::Eq, BinOp::Ne, BinOp::Lt, BinOp::Gt, BinOp::Le, BinOp::Ge, BinOp::And, BinOp::Or, BinOp::Add,
                BinOp::Mul,
            ]);
            return Expr::Bin(op, Box::new(e.clone()), Box::new(e));
        }
        if self.r.chance(15, 1000) {
            // a pair of negations / an operand that cancels: -a * -b, -a + -b, (a + b) - b, a * 0, a & 0
            let a = self.expr(depth - 1, allow_reads);
            let b = self.expr(depth - 1, allow_reads);
            let neg = |e: Expr| Expr::Un(UnOp::Neg, Box::new(e));
            let bin = |o: BinOp, l: Expr, r: Expr| Expr::Bin(o, Box::new(l), Box::new(r));
            return match self.r.below(6) {
                0 => bin(BinOp::Mul, neg(a), neg(b)),
                1 => bin(*self.r.pick(&[BinOp::Add, BinOp::Sub]), neg(a), neg(b)),
                2 => bin(BinOp::Sub, bin(BinOp::Add, a, b.clone()), b),
                3 => bin(BinOp::Mul, a, Expr::Num(0, Radix::Dec)),
                4 => bin(BinOp::And, Expr::Num(0, Radix::Dec), a),
                _ => Expr::Ite(Box::new(Expr::Num(self.r.below(2) as i64, Radix::Dec)), Box::new(a), Box::new(b)),
            };
        }
        if self.cfg.hazards > 0 && self.r.chance(self.cfg.hazards / 4, 1000) {
            let a = self.leaf(allow_reads);
            let b = self.leaf(allow_reads);
            return Expr::SignExt(Box::new(a), Box::new(b));
        }
        if self.r.chance(180, 1000) {
            let op = *self.r.pick(&[UnOp::Neg, UnOp::Not, UnOp::BitNot]);
            let e = self.expr(depth - 1, allow_reads);
            return Expr::Un(op, Box::new(e));
        }
        if self.r.chance(60, 1000) {
            let e = self.expr(depth - 1, allow_reads);
            return Expr::Group(Box::new(e));
        }
        let op = *self.r.pick(&ALL_BINOPS);
        let l = self.expr(depth - 1, allow_reads);
        if matches!(op, BinOp::Div | BinOp::Rem) {
            if !self.cfg.allow_div {
                let r = self.expr(depth - 1, allow_reads);
                return Expr::Bin(BinOp::Add, Box::new(l), Box::new(r));
            }
            let r = self.nonzero_divisor(depth - 1, allow_reads);
            return Expr::Bin(op, Box::new(l), Box::new(r));
        }
        let r = self.expr(depth - 1, allow_reads);
        Expr::Bin(op, Box::new(l), Box::new(r))
    }

    fn random_bound(&mut self, depth: usize, allow_reads: bool) -> Expr {
        if self.cfg.hazards > 0 && self.r.chance(self.cfg.hazards * 2, 1000) {
            return match self.r.below(4) {
                0 => Expr::Num(0, Radix::Dec),
                1 => Expr::Num(1, Radix::Dec),
                2 => Expr::Un(UnOp::Neg, Box::new(Expr::Num(5, Radix::Dec))),
                _ => self.leaf(allow_reads),
            };
        }
        match self.r.below(10) {
            0 => Expr::Num(2, Radix::Dec),
            1 => Expr::Num(3, Radix::Dec),
            2 => Expr::Num(10, Radix::Dec),
            3 => Expr::Num(1 << 31, Radix::Dec),
            4 => Expr::Num((1 << 32) + 1, Radix::Hex(false, true)),
            5 => Expr::Num(1 << 62, Radix::Dec),
            6 if depth > 0 => {
                // nested: random(random(k)+2)
                let k = self.r.range(2, 9);
                Expr::Bin(
                    BinOp::Add,
                    Box::new(Expr::Random(Box::new(Expr::Num(k, Radix::Dec)))),
                    Box::new(Expr::Num(2, Radix::Dec)),
                )
            }
            7 => {
                // (leaf & 7) + 2 : variable / device derived, always >= 2
                let l = self.leaf(allow_reads);
                Expr::Bin(
                    BinOp::Add,
                    Box::new(Expr::Group(Box::new(Expr::Bin(
                        BinOp::And,
                        Box::new(l),
                        Box::new(Expr::Num(7, Radix::Dec)),
                    )))),
                    Box::new(Expr::Num(2, Radix::Dec)),
                )
            }
            _ => Expr::Num(self.r.range(2, 100), Radix::Dec),
        }
    }

    fn bound_expr(&mut self) -> Expr {
        let mb = self.cfg.max_bound;
        if self.frames.len() == 1 && self.in_while == 0 && self.r.chance(8, 1000) {
            // a long top-level loop now and then (counts around the 8-bit boundaries)
            let n = *self.r.pick(&[64, 65, 127, 128, 129, 255, 256, 257, 300]);
            return Expr::Num(n, self.radix());
        }
        if self.r.chance(self.cfg.nonpos_bounds, 1000) {
            return match self.r.below(4) {
                0 => Expr::Num(0, Radix::Dec),
                1 => Expr::Un(UnOp::Neg, Box::new(Expr::Num(self.r.range(1, 3), Radix::Dec))),
                2 => Expr::Bin(
                    BinOp::Sub,
                    Box::new(Expr::Num(self.r.range(0, 2), Radix::Dec)),
                    Box::new(Expr::Num(self.r.range(2, 5), Radix::Dec)),
                ),
                _ => {
                    // a variable-derived value that is <= 0:  (v & 0)  or  0 - (v & 3)
                    let l = self.leaf(false);
                    Expr::Bin(
                        BinOp::Sub,
                        Box::new(Expr::Num(0, Radix::Dec)),
                        Box::new(Expr::Group(Box::new(Expr::Bin(
                            BinOp::And,
                            Box::new(l),
                            Box::new(Expr::Num(3, Radix::Dec)),
                        )))),
                    )
                }
            };
        }
        if !self.readable.is_empty() && self.r.chance(self.cfg.device_bounds, 1000) {
            let q = self.r.pick(&self.readable).clone();
            return Expr::Bin(
                BinOp::And,
                Box::new(Expr::Ident(q)),
                Box::new(Expr::Num(3, Radix::Dec)),
            );
        }
        if self.cfg.allow_random > 0 && self.r.chance(self.cfg.allow_random, 1000) {
            let k = self.r.range(2, 4);
            return Expr::Random(Box::new(Expr::Num(k, Radix::Dec)));
        }
        let vars = self.vars_in_scope();
        match self.r.below(6) {
            0 | 1 | 2 => Expr::Num(self.r.range(1, mb), self.radix()),
            3 if !vars.is_empty() => {
                // (v & 3): bounded, maybe zero
                let v = self.r.pick(&vars).clone();
                Expr::Bin(
                    BinOp::And,
                    Box::new(Expr::Ident(v)),
                    Box::new(Expr::Num(3, Radix::Dec)),
                )
            }
            4 if !self.loop_counters.is_empty() => {
                // (c & 3) + 1: the name may have been rebound to anything by an inner `let`,
                // so the bound is masked - every generated loop bound is at most 4
                let c = self.r.pick(&self.loop_counters).clone();
                Expr::Bin(
                    BinOp::Add,
                    Box::new(Expr::Group(Box::new(Expr::Bin(
                        BinOp::And,
                        Box::new(Expr::Ident(c)),
                        Box::new(Expr::Num(3, Radix::Dec)),
                    )))),
                    Box::new(Expr::Num(1, Radix::Dec)),
                )
            }
            _ => Expr::Num(self.r.range(1, mb), Radix::Dec),
        }
    }

    // ----------------------------------------------------------------- rows

    fn col_bits(&self, c: &Col) -> usize {
        match c.role {
            ColRole::In(i) | ColRole::Exp(i) => {
                if matches!(self.sigs[i].kind, SigKind::Virtual(_)) {
                    64
                } else {
                    self.sigs[i].bits
                }
            }
            ColRole::Virt(_) => 64,
        }
    }

    fn entry_value_expr(&mut self, bits: usize) -> Expr {
        // expressions for row entries: keep a decent share of values within the signal width
        let d = 1 + self.r.below(self.cfg.expr_depth.max(1));
        let e = self.expr(d, true);
        let _ = bits;
        e
    }

    fn gen_entries(&mut self) -> Vec<Entry> {
        let cols = self.cols.clone();
        let mut out = vec![];
        let mut c = 0;
        while c < cols.len() {
            // bits(k, e) over a run of columns, none of which needs X/Z/C
            if self.r.chance(self.cfg.bits_entries, 1000) {
                let k = 1 + self.r.below((cols.len() - c).min(6));
                let d = self.r.below(self.cfg.expr_depth.max(1) + 1);
                let e = self.expr(d, true);
                out.push(Entry::Bits(k as u8, e));
                c += k;
                continue;
            }
            if (self.cfg.hazards > 0 && self.r.chance(self.cfg.hazards / 6, 1000))
                || (self.cfg.allow_random > 0 && self.r.chance(self.cfg.allow_random / 15, 1000))
            {
                // zero-width bits(): fills no column (its argument is evaluated all the same)
                let e = self.expr(1, true);
                out.push(Entry::Bits(0, e));
            }
            let col = &cols[c];
            let bits = self.col_bits(col);
            let lower = self.r.chance(150, 1000);
            let lit = |g: &mut Gen<'_>| {
                let m: i64 = if bits >= 62 { i64::MAX } else { (1i64 << bits) - 1 };
                let v = match g.r.below(4) {
                    0 => 0,
                    1 => 1.min(m),
                    2 => g.r.range(0, m.min(1 << 40)),
                    _ => {
                        // deliberately wider than the signal now and then
                        if g.r.chance(200, 1000) {
                            g.r.range(0, i64::MAX)
                        } else {
                            g.r.range(0, m.min(255))
                        }
                    }
                };
                let rx = g.radix();
                Entry::Lit(v, rx)
            };
            let e = match col.role {
                ColRole::In(_) => match self.r.weighted(&self.cfg.w_in) {
                    0 => lit(self),
                    1 => Entry::Paren(self.entry_value_expr(bits)),
                    2 => Entry::X(lower),
                    3 => Entry::Z(lower),
                    _ => Entry::C(lower),
                },
                ColRole::Exp(_) | ColRole::Virt(_) => match self.r.weighted(&self.cfg.w_exp) {
                    0 => lit(self),
                    1 => Entry::Paren(self.entry_value_expr(bits)),
                    2 => Entry::X(lower),
                    _ => Entry::Z(lower),
                },
            };
            out.push(e);
            c += 1;
        }
        out
    }

    // ----------------------------------------------------------------- statements

    fn fresh_name(&mut self) -> String {
        self.fresh += 1;
        format!("t_{}", self.fresh)
    }

    fn let_target(&mut self) -> String {
        // never rebind the counter of the innermost enclosing loop in its own frame
        let own_counter = if self.frames.len() > 1 {
            self.frames.last().unwrap().first().cloned()
        } else {
            None
        };
        if self.in_while > 0 {
            // inside a while body: only names already definitely assigned, or fresh ones
            let vars: Vec<String> = self
                .vars_in_scope()
                .into_iter()
                .filter(|v| Some(v) != own_counter.as_ref() && !self.protected.contains(v))
                .collect();
            if !vars.is_empty() && self.r.chance(600, 1000) {
                return self.r.pick(&vars).clone();
            }
            if self.cfg.hazards > 0 && self.cfg.clash_names && self.r.chance(250, 1000) {
                // a variable that may stay unassigned and carries the name of a device output
                let scope = self.vars_in_scope();
                let pool: Vec<String> = self
                    .sigs
                    .iter()
                    .filter(|s| s.is_output() && is_identlike(&s.name) && !scope.contains(&s.name))
                    .map(|s| s.name.clone())
                    .collect();
                if !pool.is_empty() {
                    return self.r.pick(&pool).clone();
                }
            }
            return self.fresh_name();
        }
        for _ in 0..20 {
            let n = if self.cfg.clash_names && self.r.chance(200, 1000) {
                let mut pool: Vec<String> = self
                    .sigs
                    .iter()
                    .filter(|s| s.is_output() && is_identlike(&s.name))
                    .map(|s| s.name.clone())
                    .collect();
                pool.extend(self.virt_names.iter().cloned());
                if pool.is_empty() {
                    self.r.pick(&VAR_NAMES).to_string()
                } else {
                    self.r.pick(&pool).clone()
                }
            } else {
                self.r.pick(&VAR_NAMES).to_string()
            };
            if Some(&n) != own_counter.as_ref() {
                return n;
            }
        }
        self.fresh_name()
    }

    fn gen_while(&mut self, depth: usize) -> Vec<Item> {
        // returns [let w = K; while(cond) body end while]  (or a bare while)
        let mut out = vec![];
        if self.cfg.allow_random > 0 && self.r.chance(250, 1000) {
            // while (random(K) < T): every evaluation of the condition draws once; goes on with
            // probability (T-1)/(K-1) <= 3/4, so it ends after a few rounds (geometrically).
            // The body may be empty.
            let k = self.r.range(3, 6);
            let t = self.r.range(2, k - 1);
            let cond = Expr::Bin(
                BinOp::Lt,
                Box::new(Expr::Random(Box::new(Expr::Num(k, Radix::Dec)))),
                Box::new(Expr::Num(t, Radix::Dec)),
            );
            self.no_reset += 1;
            let body = if self.r.chance(1, 2) { vec![] } else { self.in_while_body(depth, None) };
            self.no_reset -= 1;
            out.push(Item::While(cond, body));
            return out;
        }
        let kind = self.r.below(10);
        let done_sig = self
            .readable
            .iter()
            .find(|n| n.as_str() == "DONE")
            .cloned();
        if kind == 0 {
            // never runs
            let body = self.in_while_body(depth, None);
            out.push(Item::While(Expr::Num(0, Radix::Dec), body));
            return out;
        }
        if kind == 1 && done_sig.is_some() {
            let d = done_sig.unwrap();
            let es = self.gen_entries();
            self.row_id += 1;
            let body = self.in_while_body(depth, Some(Item::Row(self.row_id, es)));
            out.push(Item::While(
                Expr::Un(UnOp::Not, Box::new(Expr::Group(Box::new(Expr::Ident(d))))),
                body,
            ));
            return out;
        }
        if (kind == 2 || kind == 3) && !self.readable.is_empty() && self.cfg.reads > 0 {
            // a counting while whose condition ALSO reads a device output on every check
            // (`(w < k) & (Q | 1)`), with a checked row in the body so that the value is a fresh
            // one each time: the first check passes, a later one may meet Z / X (after seeded
            // change X-C04-agent21-2: the re-check of a while condition losing its state on error)
            let w = self.fresh_name();
            let k = self.r.range(1, 3);
            let q = self.r.pick(&self.readable).clone();
            let cond = Expr::Bin(
                BinOp::And,
                Box::new(Expr::Group(Box::new(Expr::Bin(BinOp::Lt, Box::new(Expr::Ident(w.clone())), Box::new(Expr::Num(k, Radix::Dec)))))),
                Box::new(Expr::Group(Box::new(Expr::Bin(BinOp::Or, Box::new(Expr::Ident(q)), Box::new(Expr::Num(1, Radix::Dec)))))),
            );
            out.push(Item::Let(w.clone(), Expr::Num(0, Radix::Dec)));
            self.frames.last_mut().unwrap().push(w.clone());
            self.protected.push(w.clone());
            let step = Item::Let(w.clone(), Expr::Bin(BinOp::Add, Box::new(Expr::Ident(w.clone())), Box::new(Expr::Num(1, Radix::Dec))));
            // the row is drawn BEFORE the body: it may stand anywhere in the body and must not
            // read a name that the body introduces further down
            let es: Vec<Entry> = self.gen_entries();
            self.row_id += 1;
            let row = Item::Row(self.row_id, es);
            let mut body = self.in_while_body(depth, Some(step));
            let pos = self.r.below(body.len() + 1);
            body.insert(pos, row);
            out.push(Item::While(cond, body));
            return out;
        }
        let w = self.fresh_name();
        let up = self.r.chance(1, 2);
        let k = self.r.range(0, 3);
        let (init, cond, stepx) = if up {
            (
                Expr::Num(0, Radix::Dec),
                Expr::Bin(
                    BinOp::Lt,
                    Box::new(Expr::Ident(w.clone())),
                    Box::new(Expr::Num(k, Radix::Dec)),
                ),
                Expr::Bin(
                    BinOp::Add,
                    Box::new(Expr::Ident(w.clone())),
                    Box::new(Expr::Num(1, Radix::Dec)),
                ),
            )
        } else {
            (
                Expr::Num(k, Radix::Dec),
                Expr::Ident(w.clone()),
                Expr::Bin(
                    BinOp::Sub,
                    Box::new(Expr::Ident(w.clone())),
                    Box::new(Expr::Num(1, Radix::Dec)),
                ),
            )
        };
        // Inside a loop the counter's first binding is now and then hoisted to the very top of the
        // program: the loop body then holds no `let` of its own besides what sits inside the while
        // (after seeded change W-C01-agent20-1: a shallow scan for "does this body bind anything")
        if self.frames.len() > 1 && self.in_while == 0 && self.r.chance(250, 1000) {
            self.hoisted.push(Item::Let(w.clone(), init));
            self.frames[0].push(w.clone());
        } else {
            out.push(Item::Let(w.clone(), init));
            self.frames.last_mut().unwrap().push(w.clone());
        }
        self.protected.push(w.clone());
        let body = self.in_while_body(depth, Some(Item::Let(w.clone(), stepx)));
        if self.r.chance(150, 1000) {
            // the same condition twice: a while directly inside a while, the step two levels down
            out.push(Item::While(cond.clone(), vec![Item::While(cond, body)]));
        } else {
            out.push(Item::While(cond, body));
        }
        out
    }

    fn in_while_body(&mut self, depth: usize, must: Option<Item>) -> Vec<Item> {
        self.in_while += 1;
        let mark = self.frames.last().unwrap().len();
        let mut body = self.block(depth + 1);
        if let Some(m) = must {
            let pos = self.r.below(body.len() + 1);
            body.insert(pos, m);
        }
        // names first introduced inside the body may be unassigned afterwards
        let f = self.frames.last_mut().unwrap();
        let dropped: Vec<String> = f.drain(mark..).collect();
        let depth = self.frames.len();
        for d in dropped {
            if !self.vars_in_scope().contains(&d) && !self.maybe.iter().any(|m| m.1 == d) {
                self.maybe.push((depth, d));
            }
        }
        self.in_while -= 1;
        body
    }

    fn block(&mut self, depth: usize) -> Vec<Item> {
        let outer_last_row = self.last_row.take();
        let items = self.block_inner(depth);
        self.last_row = outer_last_row;
        items
    }

    fn block_inner(&mut self, depth: usize) -> Vec<Item> {
        if depth > 0 && self.r.chance(40, 1000) {
            // an empty body (possibly just a blank or comment line)
            return match self.r.below(3) {
                0 => vec![],
                1 => vec![Item::Blank],
                _ => vec![Item::Comment(" empty".into())],
            };
        }
        let n = self.between(self.cfg.block_items);
        let mut items = vec![];
        for _ in 0..n {
            let can_nest = depth < self.cfg.max_depth;
            let ws = [
                self.cfg.w_let,
                self.cfg.w_row,
                self.cfg.w_repeat,
                if can_nest { self.cfg.w_loop } else { 0 },
                if can_nest { self.cfg.w_while } else { 0 },
                if self.no_reset > 0 { 0 } else { self.cfg.w_reset },
                self.cfg.w_blank,
                self.cfg.w_comment,
            ];
            match self.r.weighted(&ws) {
                0 => {
                    let d = 1 + self.r.below(self.cfg.expr_depth.max(1));
                    let e = self.expr(d, true);
                    let n = self.let_target();
                    let f = self.frames.last_mut().unwrap();
                    if !f.contains(&n) {
                        f.push(n.clone());
                    }
                    self.maybe.retain(|m| m.1 != n || self.in_while > 0);
                    items.push(Item::Let(n, e));
                }
                1 => {
                    let es = match (&self.last_row, self.r.chance(self.cfg.row_repeat, 1000)) {
                        (Some(prev), true) => {
                            // near-copy: keep all entries, or regenerate and splice one in
                            let mut es = prev.clone();
                            if self.r.chance(600, 1000) {
                                let fresh = self.gen_entries();
                                if fresh.len() == es.len()
                                    && fresh.iter().zip(&es).all(|(a, b)| a.width() == b.width())
                                {
                                    let i = self.r.below(es.len());
                                    es[i] = fresh[i].clone();
                                }
                            }
                            es
                        }
                        _ => self.gen_entries(),
                    };
                    self.last_row = Some(es.clone());
                    self.row_id += 1;
                    items.push(Item::Row(self.row_id, es));
                }
                2 => {
                    let b = self.bound_expr();
                    self.frames.push(vec!["n".to_string()]);
                    let es = self.gen_entries();
                    self.frames.pop();
                    self.row_id += 1;
                    items.push(Item::Repeat(self.row_id, b, es));
                }
                3 => {
                    let b = self.bound_expr();
                    let v = if self.r.chance(150, 1000) {
                        "n".to_string()
                    } else {
                        self.r.pick(&["i", "j", "k", "a", "idx"]).to_string()
                    };
                    self.frames.push(vec![v.clone()]);
                    self.loop_counters.push(v.clone());
                    let saved_while = std::mem::replace(&mut self.in_while, 0);
                    let inner = self.block(depth + 1);
                    self.in_while = saved_while;
                    self.loop_counters.pop();
                    self.frames.pop();
                    let d = self.frames.len();
                    self.maybe.retain(|m| m.0 <= d);
                    items.push(Item::Loop(v, b, inner));
                }
                4 => {
                    let w = self.gen_while(depth);
                    items.extend(w);
                }
                5 => items.push(Item::ResetRandom),
                6 => items.push(Item::Blank),
                _ => {
                    let t = self
                        .r
                        .pick(&[" comment", "", " loop(i,3)", " 1 0 X", " end loop", " é☃", "#"])
                        .to_string();
                    items.push(Item::Comment(t));
                }
            }
        }
        items
    }

    fn gen_declares(&mut self, n: usize) -> Vec<Item> {
        let mut v = vec![];
        for k in 0..n {
            let name = self.virt_names[k].clone();
            // expressions over readable outputs only (no variables visible)
            let saved = std::mem::take(&mut self.frames);
            self.frames = vec![vec![]];
            let saved_reads = self.cfg.reads;
            let e = if self.readable.is_empty() {
                self.literal()
            } else {
                // force reads
                let d = 1 + self.r.below(2);
                self.declare_expr(d)
            };
            let _ = saved_reads;
            self.frames = saved;
            v.push(Item::Declare(name, e));
        }
        v
    }

    fn declare_expr(&mut self, depth: usize) -> Expr {
        if depth == 0 {
            if self.cfg.allow_random > 0 && self.r.chance(self.cfg.allow_random / 2, 1000) {
                // a virtual signal may draw too (one draw per checked row that evaluates it)
                return Expr::Random(Box::new(Expr::Num(self.r.range(2, 60), Radix::Dec)));
            }
            return if self.r.chance(800, 1000) {
                Expr::Ident(self.r.pick(&self.readable).clone())
            } else {
                Expr::Num(self.r.range(0, 9), Radix::Dec)
            };
        }
        // function calls and unary operators inside a declaration: their arguments are "blind to
        // variables" like the rest of it (after seeded change W-C14-agent20-7: the condition of an
        // ite evaluated with the variables visible)
        match self.r.below(10) {
            0 => {
                let c = self.declare_expr(depth - 1);
                let a = self.declare_expr(depth - 1);
                let b = self.declare_expr(depth - 1);
                return Expr::Ite(Box::new(c), Box::new(a), Box::new(b));
            }
            1 => {
                let op = *self.r.pick(&[UnOp::Neg, UnOp::Not, UnOp::BitNot]);
                let e = self.declare_expr(depth - 1);
                return Expr::Un(op, Box::new(e));
            }
            _ => {}
        }
        let op = *self.r.pick(&[
            BinOp::Add,
            BinOp::Sub,
            BinOp::Xor,
            BinOp::And,
            BinOp::Or,
            BinOp::Eq,
            BinOp::Lt,
            BinOp::Mul,
            BinOp::Shr,
            BinOp::Ne,
            BinOp::Ge,
        ]);
        let l = self.declare_expr(depth - 1);
        let r = self.declare_expr(depth - 1);
        Expr::Bin(op, Box::new(l), Box::new(r))
    }

    fn insert_anywhere(&mut self, items: &mut Vec<Item>, it: Item) {
        // choose a random block (top level or nested) and position
        let go_deeper: Vec<usize> = items
            .iter()
            .enumerate()
            .filter(|(_, x)| matches!(x, Item::Loop(..) | Item::While(..)))
            .map(|(i, _)| i)
            .collect();
        if !go_deeper.is_empty() && self.r.chance(350, 1000) {
            let i = *self.r.pick(&go_deeper);
            match &mut items[i] {
                Item::Loop(_, _, inner) | Item::While(_, inner) => {
                    return self.insert_anywhere(inner, it)
                }
                _ => unreachable!(),
            }
        }
        let pos = self.r.below(items.len() + 1);
        items.insert(pos, it);
    }

    fn gen_script(&mut self, layout: Vec<usize>) -> Script {
        let salt = self.r.next_u64();
        let values = match self.cfg.value_mode {
            0 => ValueFn::Unique {
                salt,
                narrow: false,
            },
            1 => ValueFn::Mixed {
                salt,
                z: self.cfg.mixed_rates.0,
                x: self.cfg.mixed_rates.1,
                edge: self.cfg.mixed_rates.2,
            },
            2 => ValueFn::Small {
                salt,
                modulus: 1 + self.r.below(4) as u64,
            },
            _ => ValueFn::Unique { salt, narrow: true },
        };
        // a DONE output turns the device into a "done after d calls" feedback device
        let values = if let Some(done) = layout
            .iter()
            .copied()
            .find(|&i| self.sigs[i].name == "DONE")
        {
            if self.cfg.value_mode == 0 {
                ValueFn::DoneAfter {
                    done,
                    after: 1 + self.r.below(6),
                    salt,
                }
            } else {
                values
            }
        } else {
            values
        };
        Script {
            layout,
            values,
            faults: vec![],
            override_write: self.r.chance(self.cfg.override_write, 1000),
            rebuild_signals: self.r.chance(300, 1000),
        }
    }

    fn gen_layout_opts(&mut self) -> Layout {
        if !self.cfg.random_layout {
            return Layout::plain();
        }
        Layout {
            leading_blank: if self.r.chance(300, 1000) {
                self.r.below(4)
            } else {
                0
            },
            eol: *self.r.pick(&[0, 0, 0, 1, 2]),
            trailing_newline: !self.r.chance(200, 1000),
            indent: self.r.below(4) as u8,
            redundant_parens: self.r.chance(200, 1000),
            tight: self.r.chance(250, 1000),
            sep: self.r.below(4) as u8,
            trailing_comments: *self.r.pick(&[0, 0, 100, 400]),
            salt: self.r.next_u64(),
            stray_cr: *self.r.pick(&[0, 0, 0, 0, 150]),
        }
    }
}

pub fn generate(r: &mut Prng, cfg: &GenCfg) -> Case {
    let mut g = Gen {
        r,
        cfg,
        sigs: vec![],
        cols: vec![],
        readable: vec![],
        frames: vec![vec![]],
        fresh: 0,
        row_id: 0,
        virt_names: vec![],
        maybe: vec![],
        in_while: 0,
        loop_counters: vec![],
        protected: vec![],
        last_row: None,
        no_reset: 0,
        hoisted: vec![],
    };
    g.gen_config();
    let layout = g.gen_layout_and_readable();
    let layout = if g.r.chance(cfg.list_virtuals, 1000) && !g.readable.is_empty() {
        // virtual signals that are already in the signal list (as if taken from another
        // TestCase.signals), at random positions; device layout indices are remapped
        let names: Vec<String> = layout.iter().map(|&i| g.sigs[i].name.clone()).collect();
        let n_lv = 1 + g.r.below(2);
        for k in 0..n_lv {
            let name = ["LV", "LW"][k].to_string();
            if g.sigs.iter().any(|s| s.name == name) {
                continue;
            }
            let depth = 1 + g.r.below(2);
            let e = g.declare_expr(depth);
            let at = g.r.below(g.sigs.len() + 1);
            g.sigs.insert(at, Sig { name, bits: 64, kind: SigKind::Virtual(e) });
        }
        names.iter().map(|n| g.sigs.iter().position(|s| s.name == *n).unwrap()).collect()
    } else {
        layout
    };
    let n_virt = g.between(cfg.n_declares);
    let mut vn: Vec<String> = VIRT_NAMES.iter().map(|s| s.to_string()).collect();
    g.r.shuffle(&mut vn);
    g.virt_names = vn
        .into_iter()
        .filter(|n| !g.sigs.iter().any(|s| s.name == *n))
        .take(n_virt)
        .collect();
    let n_virt = g.virt_names.len();
    g.gen_header(n_virt);
    let mut items = g.block(0);
    if !g.hoisted.is_empty() {
        let h = std::mem::take(&mut g.hoisted);
        items.splice(0..0, h);
    }
    // make sure there is at least one row somewhere at top level (except now and then: a
    // program without any row is legal - the constructor's call is then the only one)
    if !items
        .iter()
        .any(|i| matches!(i, Item::Row(..) | Item::Repeat(..)))
        && !g.r.chance(100, 1000)
    {
        let es = g.gen_entries();
        g.row_id += 1;
        items.push(Item::Row(g.row_id, es));
    }
    for d in g.gen_declares(n_virt) {
        g.insert_anywhere(&mut items, d);
    }
    let script = g.gen_script(layout);
    let layout_opts = g.gen_layout_opts();
    let header = g.cols.iter().map(|c| c.name.clone()).collect();
    let rng_seed = g.r.next_u64();
    Case {
        program: Program { header, items },
        signals: g.sigs,
        script,
        layout_opts,
        rng_seed,
    }
}


/// Plant the conjunction "variable in scope, never assigned on the executed path, named like a
/// device output": `while(0) let Q = 1; end while` followed by a read of `Q` (in a row entry of
/// an input column where one exists, otherwise in a `let`). Returns the name used.
pub fn plant_unassigned_clash(case: &mut Case, r: &mut Prng) -> Option<String> {
    let mut used: Vec<String> = vec![];
    walk_items(&case.program.items, 0, &mut |it, _| match it {
        Item::Let(n, _) | Item::Declare(n, _) | Item::Loop(n, _, _) => used.push(n.clone()),
        _ => {}
    });
    let pool: Vec<String> = case
        .signals
        .iter()
        .filter(|s| s.is_output() && is_identlike(&s.name) && !used.contains(&s.name) && s.name != "n")
        .map(|s| s.name.clone())
        .collect();
    if pool.is_empty() {
        return None;
    }
    let q = r.pick(&pool).clone();
    let is_input_col: Vec<bool> = case
        .program
        .header
        .iter()
        .map(|h| case.signals.iter().any(|s| &s.name == h && s.is_input()))
        .collect();
    let guard = Item::While(
        Expr::Num(0, Radix::Dec),
        vec![Item::Let(q.clone(), Expr::Num(1, Radix::Dec))],
    );
    // a top-level row with a literal in an input column
    let mut target = None;
    for (i, it) in case.program.items.iter().enumerate() {
        if let Item::Row(_, es) = it {
            let mut col = 0;
            for (k, e) in es.iter().enumerate() {
                if matches!(e, Entry::Lit(..)) && is_input_col.get(col) == Some(&true) {
                    target = Some((i, k));
                    break;
                }
                col += e.width();
            }
            if target.is_some() {
                break;
            }
        }
    }
    match target {
        Some((i, k)) => {
            if let Item::Row(_, es) = &mut case.program.items[i] {
                es[k] = Entry::Paren(Expr::Ident(q.clone()));
            }
            let pos = r.below(i + 1);
            case.program.items.insert(pos, guard);
        }
        None => {
            let n = case.program.items.len();
            let pos = r.below(n + 1);
            case.program.items.insert(pos, Item::Let("t_u".into(), Expr::Ident(q.clone())));
            let pos2 = r.below(pos + 1);
            case.program.items.insert(pos2, guard);
        }
    }
    Some(q)
}

/// Plant "the same text in two scopes" (added after seeded change T-C20-agent17-4, a parse cache
/// keyed by the raw text of a row): a statement that reads the name `Q` - a data row, a `repeat`
/// row or a `let` - appears once inside a loop whose counter is called `Q` and once, byte for
/// byte the same, outside that loop, where `Q` is a device output. The layout is made uniform
/// (one separator, no trailing comments, no stray CR, one kind of line end) so that the two
/// copies really are the same text. Returns the name used.
pub fn plant_scope_twins(case: &mut Case, r: &mut Prng) -> Option<String> {
    let mut used: Vec<String> = vec![];
    walk_items(&case.program.items, 0, &mut |it, _| match it {
        Item::Let(n, _) | Item::Declare(n, _) | Item::Loop(n, _, _) => used.push(n.clone()),
        _ => {}
    });
    let pool: Vec<String> = case
        .script
        .layout
        .iter()
        .filter_map(|&i| case.signals.get(i))
        .filter(|s| s.is_output() && is_identlike(&s.name) && !used.contains(&s.name) && s.name != "n")
        .map(|s| s.name.clone())
        .collect();
    if pool.is_empty() {
        return None;
    }
    let q = r.pick(&pool).clone();
    // a top-level row to copy (its identifiers are valid from its own position on)
    let rows: Vec<usize> = case
        .program
        .items
        .iter()
        .enumerate()
        .filter(|(_, it)| matches!(it, Item::Row(_, es) if es.iter().any(|e| matches!(e, Entry::Lit(..)))))
        .map(|(i, _)| i)
        .collect();
    if rows.is_empty() {
        return None;
    }
    let at = *r.pick(&rows);
    let Item::Row(_, es) = &case.program.items[at] else { return None };
    let mut es = es.clone();
    let lits: Vec<usize> = es.iter().enumerate().filter(|(_, e)| matches!(e, Entry::Lit(..))).map(|(k, _)| k).collect();
    let k = *r.pick(&lits);
    let id = || Box::new(Expr::Ident(q.clone()));
    let read = match r.below(4) {
        0 => Expr::Ident(q.clone()),
        1 => Expr::Bin(BinOp::Add, id(), Box::new(Expr::Num(1, Radix::Dec))),
        2 => Expr::Bin(BinOp::And, id(), Box::new(Expr::Num(3, Radix::Dec))),
        _ => Expr::Bin(BinOp::Xor, id(), Box::new(Expr::Num(5, Radix::Dec))),
    };
    es[k] = Entry::Paren(read.clone());
    let bound = Expr::Num(1 + r.below(3) as i64, Radix::Dec);
    let (inner, outer): (Vec<Item>, Vec<Item>) = match r.below(4) {
        // a let, twice
        0 => {
            let l = Item::Let("t_w".into(), read.clone());
            (vec![l.clone(), Item::Row(0, es.clone())], vec![l, Item::Row(0, es.clone())])
        }
        // a repeat row, twice (inside, `n` is the repeat's own counter either way)
        1 => {
            let b = Expr::Num(2, Radix::Dec);
            (vec![Item::Repeat(0, b.clone(), es.clone())], vec![Item::Repeat(0, b, es.clone())])
        }
        _ => (vec![Item::Row(0, es.clone())], vec![Item::Row(0, es.clone())]),
    };
    let lp = Item::Loop(q.clone(), bound, inner);
    let mut planted = if r.chance(700, 1000) {
        let mut v = vec![lp];
        v.extend(outer);
        v
    } else {
        let mut v = outer;
        v.push(lp);
        v
    };
    if r.chance(300, 1000) {
        // and once more after everything
        planted.push(Item::Row(0, es.clone()));
    }
    let pos = at + 1;
    for (j, it) in planted.into_iter().enumerate() {
        case.program.items.insert(pos + j, it);
    }
    let lo = &mut case.layout_opts;
    lo.sep = if lo.sep == 1 { 1 } else { 0 };
    lo.trailing_comments = 0;
    lo.stray_cr = 0;
    if lo.eol == 2 {
        lo.eol = 0;
    }
    let mut next = 0;
    renumber(&mut case.program.items, &mut next);
    Some(q)
}
