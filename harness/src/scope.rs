//! Static (parse-time) scope analysis of a model program, written from the statement of
//! C11: an identifier read where no variable of that name is in scope reads an output.
//! Scope = `let`s textually earlier in the same or an enclosing block; `loop`/`repeat`
//! open a frame (holding the counter), `while` opens none; `declare` sees no variables.

use crate::model::*;
use std::collections::HashSet;

#[derive(Default, Debug, Clone)]
pub struct ScopeInfo {
    /// Names read as outputs, unique, in order of first occurrence
    pub output_reads: Vec<String>,
    /// Header column indices that hold `C` in some row
    pub c_columns: Vec<usize>,
    /// A row whose entry widths do not add up to the header width (should not be generated)
    pub bad_row_width: bool,
    /// Identifier occurrences (by node address within the analysed program) that are read
    /// where a variable of that name is in scope: these mean the variable, never a signal
    pub bound: HashSet<usize>,
}

struct W<'a> {
    scopes: Vec<HashSet<&'a str>>,
    info: ScopeInfo,
    ncols: usize,
}

impl<'a> W<'a> {
    fn in_scope(&self, n: &str) -> bool {
        self.scopes.iter().any(|s| s.contains(n))
    }
    fn read(&mut self, e: &'a Expr, blind: bool) {
        let mut nodes = vec![];
        e.walk(&mut |x| {
            if let Expr::Ident(n) = x {
                nodes.push((x as *const Expr as usize, n.as_str()))
            }
        });
        for (addr, n) in nodes {
            let free = blind || !self.in_scope(n);
            if !free {
                self.info.bound.insert(addr);
            }
            if free && !self.info.output_reads.iter().any(|x| x == n) {
                self.info.output_reads.push(n.to_string());
            }
        }
    }
    fn entries(&mut self, es: &'a [Entry]) {
        let mut col = 0;
        for e in es {
            match e {
                Entry::Paren(x) | Entry::Bits(_, x) => self.read(x, false),
                Entry::C(_) => {
                    if !self.info.c_columns.contains(&col) {
                        self.info.c_columns.push(col)
                    }
                }
                _ => {}
            }
            col += e.width();
        }
        if col != self.ncols {
            self.info.bad_row_width = true;
        }
    }
    fn items(&mut self, items: &'a [Item]) {
        for it in items {
            match it {
                Item::Let(n, e) => {
                    self.read(e, false);
                    self.scopes.last_mut().unwrap().insert(n);
                }
                Item::Declare(_, e) => self.read(e, true),
                Item::Row(_, es) => self.entries(es),
                Item::Repeat(_, b, es) => {
                    self.read(b, false);
                    self.scopes.push(HashSet::from(["n"]));
                    self.entries(es);
                    self.scopes.pop();
                }
                Item::Loop(v, b, inner) => {
                    self.read(b, false);
                    self.scopes.push(HashSet::from([v.as_str()]));
                    self.items(inner);
                    self.scopes.pop();
                }
                Item::While(c, inner) => {
                    self.read(c, false);
                    self.items(inner);
                }
                Item::ResetRandom | Item::Blank | Item::Comment(_) => {}
            }
        }
    }
}

/// Outputs read by the test as a whole: by the program text, and by virtual signals that are
/// already part of the signal list (their expressions read device outputs too).
pub fn test_output_reads(p: &Program, sigs: &[Sig]) -> Vec<String> {
    let mut v = analyse(p).output_reads;
    for s in sigs {
        if let SigKind::Virtual(e) = &s.kind {
            for n in e.idents() {
                if sigs.iter().any(|x| x.name == n && x.is_output()) && !v.iter().any(|x| x == n) {
                    v.push(n.to_string());
                }
            }
        }
    }
    v
}

pub fn analyse(p: &Program) -> ScopeInfo {
    let mut w = W {
        scopes: vec![HashSet::new()],
        info: ScopeInfo::default(),
        ncols: p.header.len(),
    };
    w.items(&p.items);
    w.info
}

/// The independent judgement of C11: do program and signal list fit together?
/// Returns Ok(()) or the (first) reason they do not.
pub fn fits(p: &Program, sigs: &[Sig]) -> Result<(), String> {
    let info = analyse(p);
    let decl: Vec<&str> = p.declares().iter().map(|(n, _)| *n).collect();
    // names distinct, also from declared virtual names
    let mut seen = HashSet::new();
    for s in sigs {
        if !seen.insert(s.name.as_str()) {
            return Err(format!("duplicate signal {}", s.name));
        }
    }
    for d in &decl {
        if seen.contains(d) {
            return Err(format!("signal {} is also virtual", d));
        }
    }
    // every header column names something
    let col_is_input = |c: &str| sigs.iter().any(|s| s.name == c && s.is_input());
    for c in &p.header {
        let direct = sigs.iter().any(|s| s.name == *c) || decl.contains(&c.as_str());
        let as_out = c
            .strip_suffix("_out")
            .map(|b| {
                sigs.iter()
                    .any(|s| s.name == b && matches!(s.kind, SigKind::Bidir(_)))
            })
            .unwrap_or(false);
        if !direct && !as_out {
            return Err(format!("unknown column {c}"));
        }
    }
    // C columns are input-capable
    for &c in &info.c_columns {
        if c >= p.header.len() || !col_is_input(&p.header[c]) {
            return Err(format!("C in non-input column {c}"));
        }
    }
    // reads name output-capable signals
    for n in &info.output_reads {
        if !sigs.iter().any(|s| s.name == *n && s.is_output()) {
            return Err(format!("read of {n} which is not an output"));
        }
    }
    Ok(())
}

/// What C18 says about `vars()` at a row, as far as it follows from the text alone (no
/// knowledge of how often loops run): the names that *can* be in scope there, and - for rows
/// outside every loop - names whose value is fixed by a constant top-level `let` that no
/// `let` outside a loop body changes before the row.
#[derive(Debug, Clone, Default)]
pub struct RowScope {
    pub names: HashSet<String>,
    pub outside_loops: bool,
    pub fixed: Vec<(String, i64)>,
}

pub fn row_scopes(p: &Program) -> std::collections::HashMap<usize, RowScope> {
    struct S {
        frames: Vec<HashSet<String>>,
        /// top-frame names -> Some(constant) / None (not a known constant)
        top: Vec<(String, Option<i64>)>,
        out: std::collections::HashMap<usize, RowScope>,
    }
    fn const_of(e: &Expr) -> Option<i64> {
        match e {
            Expr::Num(v, _) => Some(*v),
            Expr::Group(x) => const_of(x),
            _ => None,
        }
    }
    /// every name a `let` of this frame can bind (a frame persists over the iterations of its
    /// loop and of the whiles in it, so textually later lets count too)
    fn collect(items: &[Item], into: &mut HashSet<String>) {
        for it in items {
            match it {
                Item::Let(n, _) => {
                    into.insert(n.clone());
                }
                Item::While(_, inner) => collect(inner, into),
                _ => {}
            }
        }
    }
    fn go(s: &mut S, items: &[Item], in_loop: bool, in_while: bool) {
        for it in items {
            match it {
                Item::Let(n, e) => {
                    if !in_loop {
                        // a let in a top-level while body may or may not have run
                        let v = if in_while { None } else { const_of(e) };
                        if let Some(slot) = s.top.iter_mut().find(|(k, _)| k == n) {
                            slot.1 = v;
                        } else if !in_while {
                            s.top.push((n.clone(), v));
                        } else {
                            s.top.push((n.clone(), None));
                        }
                    }
                }
                Item::Row(id, _) | Item::Repeat(id, _, _) => {
                    let mut names: HashSet<String> = s.frames.iter().flatten().cloned().collect();
                    if matches!(it, Item::Repeat(..)) {
                        names.insert("n".into());
                    }
                    let fixed = if in_loop || in_while || matches!(it, Item::Repeat(..)) {
                        vec![]
                    } else {
                        s.top.iter().filter_map(|(k, v)| v.map(|v| (k.clone(), v))).collect()
                    };
                    s.out.insert(*id, RowScope { names, outside_loops: !in_loop, fixed });
                }
                Item::Loop(v, _, inner) => {
                    let mut f = HashSet::from([v.clone()]);
                    collect(inner, &mut f);
                    s.frames.push(f);
                    go(s, inner, true, in_while);
                    s.frames.pop();
                }
                Item::While(_, inner) => go(s, inner, in_loop, true),
                Item::Declare(..) | Item::ResetRandom | Item::Blank | Item::Comment(_) => {}
            }
        }
    }
    let mut top = HashSet::new();
    collect(&p.items, &mut top);
    let mut s = S { frames: vec![top], top: vec![], out: Default::default() };
    go(&mut s, &p.items, false, false);
    s.out
}
