//! Oracles over (prescribed history, observed history).

use crate::model::*;
use crate::pp::Printed;
use crate::realrun::*;
use crate::refint::*;
use serde::Serialize;

#[derive(Clone, Debug, Serialize)]
pub struct Finding {
    /// short, stable classification used for known-finding matching
    pub signature: String,
    pub detail: String,
}

impl Finding {
    pub fn new(sig: impl Into<String>, detail: impl Into<String>) -> Self {
        Finding {
            signature: sig.into(),
            detail: detail.into(),
        }
    }
}

#[derive(Clone, Copy, Debug, Default)]
pub struct Aspects {
    pub lines: bool,
    pub inputs: bool,
    pub expected: bool,
    /// device outputs attributed to signals + virtual signal values
    pub outputs: bool,
    pub virtual_only: bool,
    pub vars: bool,
    /// only require item *kinds* (row / error / end) to agree beyond what is selected
    pub kinds: bool,
}

impl Aspects {
    pub fn all() -> Self {
        Aspects {
            lines: true,
            inputs: true,
            expected: true,
            outputs: true,
            virtual_only: false,
            vars: true,
            kinds: true,
        }
    }
    pub fn rows() -> Self {
        Aspects {
            lines: true,
            inputs: true,
            expected: true,
            outputs: false,
            virtual_only: false,
            vars: false,
            kinds: true,
        }
    }
}

/// Map an index into the real TestCase.signals to the unified reference index, by name.
pub fn unify(real: &RealTrace, rf: &RefTrace, i: usize) -> usize {
    real.signals
        .get(i)
        .and_then(|s| rf.sig_names.iter().position(|n| *n == s.name))
        .unwrap_or(usize::MAX)
}

fn first_panic(real: &RealTrace) -> Option<&PanicInfo> {
    if let Stage::Panic(p) = &real.parse {
        return Some(p);
    }
    if let Stage::Panic(p) = &real.bind {
        return Some(p);
    }
    if let Construct::Panic(p) = &real.construct {
        return Some(p);
    }
    for s in &real.steps {
        if let RealItem::Panic(p) = &s.item {
            return Some(p);
        }
    }
    None
}

/// Any panic anywhere in the observed history.
pub fn no_panic(real: &RealTrace) -> Option<Finding> {
    first_panic(real).map(|p| Finding::new(p.signature(), format!("panic: {p:?}")))
}

/// The case must have been accepted (parse + bind ok). Generated cases are valid by
/// construction, so a rejection is either a harness bug or a crate defect; it is reported
/// under its own signature so it is never silently dropped.
pub fn accepted(real: &RealTrace) -> Option<Finding> {
    match &real.parse {
        Stage::Ok => {}
        Stage::Err { text, .. } => {
            return Some(Finding::new(
                "rejected-valid-program:parse",
                format!("parse error on a program valid by construction: {text}"),
            ))
        }
        Stage::Panic(p) => return Some(Finding::new(p.signature(), format!("parse panic {p:?}"))),
        Stage::NotReached => return Some(Finding::new("harness", "parse not reached")),
    }
    match &real.bind {
        Stage::Ok => None,
        Stage::Err { text, .. } => Some(Finding::new(
            "rejected-valid-program:bind",
            format!("bind error on a fitting pair: {text}"),
        )),
        Stage::Panic(p) => Some(Finding::new(p.signature(), format!("bind panic {p:?}"))),
        Stage::NotReached => Some(Finding::new("harness", "bind not reached")),
    }
}

pub fn construct_agrees(rf: &RefTrace, real: &RealTrace) -> Option<Finding> {
    match (&rf.construct_err, &real.construct) {
        (None, Construct::Ok) => None,
        (Some(RefErr::Driver { nonce }), Construct::ErrDriver { nonce: n, .. }) if n == nonce => None,
        (Some(RefErr::MissingOutputs(_)), Construct::ErrRuntime(_)) => None,
        (_, Construct::Panic(p)) => Some(Finding::new(p.signature(), format!("constructor panic {p:?}"))),
        (want, got) => Some(Finding::new(
            "construct-mismatch",
            format!("constructor: prescribed {want:?}, observed {got:?}"),
        )),
    }
}

/// Compare the item streams. Returns the first disagreement.
pub fn diff_items(
    case_lines: &Printed,
    rf: &RefTrace,
    real: &RealTrace,
    asp: Aspects,
) -> Option<Finding> {
    if let Some(f) = construct_agrees(rf, real) {
        return Some(f);
    }
    if rf.construct_err.is_some() {
        return None;
    }
    let n_ref = rf.items.len();
    for k in 0..n_ref {
        let Some(step) = real.steps.get(k) else {
            return Some(Finding::new(
                "stream-short",
                format!("observed stream stops after {} steps, prescribed item {k}: {:?}", real.steps.len(), rf.items[k]),
            ));
        };
        match (&rf.items[k], &step.item) {
            (_, RealItem::Panic(p)) => {
                return Some(Finding::new(p.signature(), format!("next() #{k} panicked: {p:?}")))
            }
            (RefItem::Row(want), RealItem::Row(got)) => {
                if let Some(f) = diff_row(case_lines, rf, real, k, want, got, step, asp) {
                    return Some(f);
                }
            }
            (RefItem::Err(RefErr::Driver { nonce }), RealItem::ErrDriver { nonce: n, .. }) => {
                if n != nonce {
                    return Some(Finding::new(
                        "driver-error-identity",
                        format!("item {k}: driver error nonce {n} but injected {nonce}"),
                    ));
                }
            }
            (RefItem::Err(e), RealItem::ErrRuntime(text)) if !matches!(e, RefErr::Driver { .. }) => {
                // the text should name the signal for Z/X reads
                if let RefErr::ReadZX(n) | RefErr::VirtualZX(n) = e {
                    if asp.kinds && !text.contains(n.as_str()) {
                        return Some(Finding::new(
                            "error-names-wrong-signal",
                            format!("item {k}: error text {text:?} does not name {n}"),
                        ));
                    }
                }
            }
            (want, got) => {
                return Some(Finding::new(
                    "item-kind",
                    format!("item {k}: prescribed {}, observed {}", brief_ref(want), brief_real(got)),
                ));
            }
        }
    }
    if rf.ended {
        match real.steps.get(n_ref).map(|s| &s.item) {
            Some(RealItem::End) => None,
            Some(RealItem::Panic(p)) => Some(Finding::new(p.signature(), format!("next() #{n_ref} panicked: {p:?}"))),
            Some(other) => Some(Finding::new(
                "stream-long",
                format!("prescribed end of iteration after {n_ref} items, observed {}", brief_real(other)),
            )),
            None => Some(Finding::new("stream-short", "no End observed")),
        }
    } else {
        None
    }
}

fn brief_ref(i: &RefItem) -> String {
    match i {
        RefItem::Row(r) => format!(
            "row(id={}, inputs={:?}, checked={}, expected={:?})",
            r.row_id, r.inputs, r.checked, r.expected
        ),
        RefItem::Err(e) => format!("error({e:?})"),
    }
}
fn brief_real(i: &RealItem) -> String {
    match i {
        RealItem::Row(r) => format!(
            "row(line={}, inputs={:?}, outputs={:?})",
            r.line, r.inputs, r.outputs
        ),
        other => format!("{other:?}"),
    }
}

#[allow(clippy::too_many_arguments)]
fn diff_row(
    pr: &Printed,
    rf: &RefTrace,
    real: &RealTrace,
    k: usize,
    want: &RefRow,
    got: &RealRow,
    step: &RealStep,
    asp: Aspects,
) -> Option<Finding> {
    if asp.lines {
        let wl = pr.row_lines.get(&want.row_id).copied().unwrap_or(0);
        if wl != got.line {
            return Some(Finding::new(
                "line",
                format!("row {k}: line {} reported, source row is on line {wl}", got.line),
            ));
        }
    }
    if asp.inputs {
        let g: Vec<(usize, InVal)> = got
            .inputs
            .iter()
            .map(|(i, v, _)| (unify(real, rf, *i), *v))
            .collect();
        if g != want.inputs {
            return Some(Finding::new(
                "inputs",
                format!("row {k}: inputs {:?}, prescribed {:?} (names {:?})", g, want.inputs, rf.sig_names),
            ));
        }
    }
    if asp.kinds && want.checked == got.outputs.is_empty() && !(want.checked && want.expected.is_empty()) {
        return Some(Finding::new(
            "checked-flag",
            format!("row {k}: prescribed checked={}, observed {} outputs", want.checked, got.outputs.len()),
        ));
    }
    if want.checked && asp.expected {
        let mut g: Vec<(usize, ExpVal)> = got
            .outputs
            .iter()
            .map(|(i, _, e, _, _)| (unify(real, rf, *i), *e))
            .collect();
        let mut w = want.expected.clone();
        // order of entries is C06/C15's business; here compare as a signal->value map
        g.sort_by_key(|e| e.0);
        w.sort_by_key(|e| e.0);
        if g != w {
            return Some(Finding::new(
                "expected",
                format!("row {k}: expected values {:?}, prescribed {:?} (names {:?})", g, w, rf.sig_names),
            ));
        }
    }
    if want.checked && (asp.outputs || asp.virtual_only) {
        for (pos, (ui, _)) in want.expected.iter().enumerate() {
            let is_virtual = *ui >= rf.n_cfg;
            if asp.virtual_only && !is_virtual {
                continue;
            }
            let w = want.outputs[pos];
            let g = got
                .outputs
                .iter()
                .find(|(i, ..)| unify(real, rf, *i) == *ui)
                .map(|e| e.1);
            if g != Some(w) {
                return Some(Finding::new(
                    if is_virtual { "virtual-value" } else { "output-attribution" },
                    format!(
                        "row {k}: signal {} reports {:?}, prescribed {:?}",
                        rf.sig_names[*ui], g, w
                    ),
                ));
            }
        }
    }
    if asp.vars {
        match &step.vars {
            Some(v) if *v == want.vars => {}
            other => {
                return Some(Finding::new(
                    "vars",
                    format!("row {k}: vars() = {:?}, prescribed {:?}", other, want.vars),
                ))
            }
        }
    }
    None
}
