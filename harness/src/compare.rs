//! Oracles over (prescribed history, observed history).

use crate::model::*;
use crate::pp::Printed;
use crate::realrun::*;
use crate::refint::*;
use serde::Serialize;

#[derive(Clone, Debug, Serialize)]
pub struct Finding {
    /// short, stable classification used for known-finding matching
    pub signature: String,
    pub detail: String,
}

impl Finding {
    pub fn new(sig: impl Into<String>, detail: impl Into<String>) -> Self {
        Finding {
            signature: sig.into(),
            detail: detail.into(),
        }
    }
}

#[derive(Clone, Copy, Debug, Default)]
pub struct Aspects {
    pub lines: bool,
    pub inputs: bool,
    pub expected: bool,
    /// device outputs attributed to signals + virtual signal values
    pub outputs: bool,
    pub virtual_only: bool,
    pub vars: bool,
    /// only require item *kinds* (row / error / end) to agree beyond what is selected
    pub kinds: bool,
}

impl Aspects {
    pub fn all() -> Self {
        Aspects {
            lines: true,
            inputs: true,
            expected: true,
            outputs: true,
            virtual_only: false,
            vars: true,
            kinds: true,
        }
    }
    pub fn rows() -> Self {
        Aspects {
            lines: true,
            inputs: true,
            expected: true,
            outputs: false,
            virtual_only: false,
            vars: false,
            kinds: true,
        }
    }
}

/// Map an index into the real TestCase.signals to the unified reference index, by name.
pub fn unify(real: &RealTrace, rf: &RefTrace, i: usize) -> usize {
    real.signals
        .get(i)
        .and_then(|s| rf.sig_names.iter().position(|n| *n == s.name))
        .unwrap_or(usize::MAX)
}

fn first_panic(real: &RealTrace) -> Option<&PanicInfo> {
    if let Stage::Panic(p) = &real.parse {
        return Some(p);
    }
    if let Stage::Panic(p) = &real.bind {
        return Some(p);
    }
    if let Construct::Panic(p) = &real.construct {
        return Some(p);
    }
    for s in &real.steps {
        if let RealItem::Panic(p) = &s.item {
            return Some(p);
        }
    }
    None
}

/// Any panic anywhere in the observed history.
pub fn no_panic(real: &RealTrace) -> Option<Finding> {
    first_panic(real).map(|p| Finding::new(p.signature(), format!("panic: {p:?}")))
}

/// The case must have been accepted (parse + bind ok). Generated cases are valid by
/// construction, so a rejection is either a harness bug or a crate defect; it is reported
/// under its own signature so it is never silently dropped.
pub fn accepted(real: &RealTrace) -> Option<Finding> {
    match &real.parse {
        Stage::Ok => {}
        Stage::Err { text, .. } => {
            return Some(Finding::new(
                "rejected-valid-program:parse",
                format!("parse error on a program valid by construction: {text}"),
            ))
        }
        Stage::Panic(p) => return Some(Finding::new(p.signature(), format!("parse panic {p:?}"))),
        Stage::NotReached => return Some(Finding::new("harness", "parse not reached")),
    }
    match &real.bind {
        Stage::Ok => None,
        Stage::Err { text, .. } => Some(Finding::new(
            "rejected-valid-program:bind",
            format!("bind error on a fitting pair: {text}"),
        )),
        Stage::Panic(p) => Some(Finding::new(p.signature(), format!("bind panic {p:?}"))),
        Stage::NotReached => Some(Finding::new("harness", "bind not reached")),
    }
}

pub fn construct_agrees(rf: &RefTrace, real: &RealTrace) -> Option<Finding> {
    match (&rf.construct_err, &real.construct) {
        (None, Construct::Ok) => None,
        (Some(RefErr::Driver { nonce }), Construct::ErrDriver { nonce: n, .. }) if n == nonce => None,
        (Some(RefErr::MissingOutputs(_)), Construct::ErrRuntime(_)) => None,
        (_, Construct::Panic(p)) => Some(Finding::new(p.signature(), format!("constructor panic {p:?}"))),
        (want, got) => Some(Finding::new(
            "construct-mismatch",
            format!("constructor: prescribed {want:?}, observed {got:?}"),
        )),
    }
}

/// Compare the item streams. Returns the first disagreement.
pub fn diff_items(
    case_lines: &Printed,
    rf: &RefTrace,
    real: &RealTrace,
    asp: Aspects,
) -> Option<Finding> {
    if let Some(f) = construct_agrees(rf, real) {
        return Some(f);
    }
    if rf.construct_err.is_some() {
        return None;
    }
    let n_ref = rf.items.len();
    for k in 0..n_ref {
        // after a statement-level error item an iteration that simply ends is accepted
        if k > 0 && rf.soft_errors.contains(&(k - 1)) && matches!(real.steps.get(k).map(|s| &s.item), Some(RealItem::End)) {
            return None;
        }
        let Some(step) = real.steps.get(k) else {
            return Some(Finding::new(
                "stream-short",
                format!("observed stream stops after {} steps, prescribed item {k}: {:?}", real.steps.len(), rf.items[k]),
            ));
        };
        match (&rf.items[k], &step.item) {
            (_, RealItem::Panic(p)) => {
                return Some(Finding::new(p.signature(), format!("next() #{k} panicked: {p:?}")))
            }
            (RefItem::Row(want), RealItem::Row(got)) => {
                if let Some(f) = diff_row(case_lines, rf, real, k, want, got, step, asp) {
                    return Some(f);
                }
            }
            (RefItem::Err(RefErr::Driver { nonce }), RealItem::ErrDriver { nonce: n, .. }) => {
                if n != nonce {
                    return Some(Finding::new(
                        "driver-error-identity",
                        format!("item {k}: driver error nonce {n} but injected {nonce}"),
                    ));
                }
                if let Some(f) = vars_after_error(rf, k, step, asp) {
                    return Some(f);
                }
            }
            (RefItem::Err(e), RealItem::ErrRuntime(_)) if !matches!(e, RefErr::Driver { .. }) => {
                // the properties require *an error item* here; which signal its text names
                // is not prescribed (several operands may be Z/X at once)
                if let Some(f) = vars_after_error(rf, k, step, asp) {
                    return Some(f);
                }
            }
            (want, got) => {
                return Some(Finding::new(
                    "item-kind",
                    format!("item {k}: prescribed {}, observed {}", brief_ref(want), brief_real(got)),
                ));
            }
        }
    }
    if rf.ended {
        match real.steps.get(n_ref).map(|s| &s.item) {
            Some(RealItem::End) => None,
            Some(RealItem::Panic(p)) => Some(Finding::new(p.signature(), format!("next() #{n_ref} panicked: {p:?}"))),
            Some(other) => Some(Finding::new(
                "stream-long",
                format!("prescribed end of iteration after {n_ref} items, observed {}", brief_real(other)),
            )),
            None => Some(Finding::new("stream-short", "no End observed")),
        }
    } else if rf.ends_in_failing_while_condition {
        // The caller asks once more after the error item of a `while` condition that cannot be
        // evaluated. Nothing has happened in between, so the condition still cannot be evaluated:
        // another error item or the end are both acceptable, a ROW is not - neither the body
        // (condition non-zero) nor what follows the loop (condition zero) has been earned.
        match real.steps.get(n_ref).map(|s| &s.item) {
            Some(RealItem::Row(r)) => Some(Finding::new(
                "row-after-failing-while-condition",
                format!("item {}: a while condition could not be evaluated ({}); asked again, the iterator yields row(line={}, inputs={:?})", n_ref - 1, brief_ref(&rf.items[n_ref - 1]), r.line, r.inputs),
            )),
            Some(RealItem::Panic(p)) => Some(Finding::new(p.signature(), format!("next() #{n_ref} (after a failing while condition) panicked: {p:?}"))),
            _ => None,
        }
    } else {
        None
    }
}

/// vars() right after a row-level error item: still the variables of the row's statement.
fn vars_after_error(rf: &RefTrace, k: usize, step: &RealStep, asp: Aspects) -> Option<Finding> {
    if !asp.vars {
        return None;
    }
    let want = rf.err_vars.get(&k)?;
    match &step.vars {
        Some(v) if v == want => None,
        other => Some(Finding::new(
            "vars-after-error-item",
            format!("item {k} (error item of a row): vars() = {:?}, prescribed {:?}", other, want),
        )),
    }
}

fn brief_ref(i: &RefItem) -> String {
    match i {
        RefItem::Row(r) => format!(
            "row(id={}, inputs={:?}, checked={}, expected={:?})",
            r.row_id, r.inputs, r.checked, r.expected
        ),
        RefItem::Err(e) => format!("error({e:?})"),
    }
}
fn brief_real(i: &RealItem) -> String {
    match i {
        RealItem::Row(r) => format!(
            "row(line={}, inputs={:?}, outputs={:?})",
            r.line, r.inputs, r.outputs
        ),
        other => format!("{other:?}"),
    }
}

#[allow(clippy::too_many_arguments)]
fn diff_row(
    pr: &Printed,
    rf: &RefTrace,
    real: &RealTrace,
    k: usize,
    want: &RefRow,
    got: &RealRow,
    step: &RealStep,
    asp: Aspects,
) -> Option<Finding> {
    if asp.lines {
        let wl = pr.row_lines.get(&want.row_id).copied().unwrap_or(0);
        if wl != got.line {
            return Some(Finding::new(
                "line",
                format!("row {k}: line {} reported, source row is on line {wl}", got.line),
            ));
        }
    }
    if asp.inputs {
        let g: Vec<(usize, InVal)> = got
            .inputs
            .iter()
            .map(|(i, v, _)| (unify(real, rf, *i), *v))
            .collect();
        if g != want.inputs {
            return Some(Finding::new(
                "inputs",
                format!("row {k}: inputs {:?}, prescribed {:?} (names {:?})", g, want.inputs, rf.sig_names),
            ));
        }
    }
    if asp.kinds && want.checked == got.outputs.is_empty() && !(want.checked && want.expected.is_empty()) {
        return Some(Finding::new(
            "checked-flag",
            format!("row {k}: prescribed checked={}, observed {} outputs", want.checked, got.outputs.len()),
        ));
    }
    if want.checked && asp.expected {
        let mut g: Vec<(usize, ExpVal)> = got
            .outputs
            .iter()
            .map(|(i, _, e, _, _)| (unify(real, rf, *i), *e))
            .collect();
        let mut w = want.expected.clone();
        // order of entries is C06/C15's business; here compare as a signal->value map
        g.sort_by_key(|e| e.0);
        w.sort_by_key(|e| e.0);
        if g != w {
            return Some(Finding::new(
                "expected",
                format!("row {k}: expected values {:?}, prescribed {:?} (names {:?})", g, w, rf.sig_names),
            ));
        }
    }
    if want.checked && (asp.outputs || asp.virtual_only) {
        for (pos, (ui, _)) in want.expected.iter().enumerate() {
            let is_virtual = *ui >= rf.n_cfg || rf.list_virtuals.contains(ui);
            if asp.virtual_only && !is_virtual {
                continue;
            }
            let w = want.outputs[pos];
            let g = got
                .outputs
                .iter()
                .find(|(i, ..)| unify(real, rf, *i) == *ui)
                .map(|e| e.1);
            if g != Some(w) {
                return Some(Finding::new(
                    if is_virtual { "virtual-value" } else { "output-attribution" },
                    format!(
                        "row {k}: signal {} reports {:?}, prescribed {:?}",
                        rf.sig_names[*ui], g, w
                    ),
                ));
            }
        }
    }
    if asp.vars {
        match &step.vars {
            Some(v) if *v == want.vars => {}
            other => {
                return Some(Finding::new(
                    "vars",
                    format!("row {k}: vars() = {:?}, prescribed {:?}", other, want.vars),
                ))
            }
        }
    }
    None
}

// ------------------------------------------------------------------------------------------
// C02: driver protocol

fn call_vs_row_inputs(real: &RealTrace, call: &RealCall, row: &RealRow) -> bool {
    call.inputs.len() == row.inputs.len()
        && call.inputs.iter().zip(&row.inputs).all(|(c, r)| {
            real.signals.get(r.0).map(|s| s.name == c.1).unwrap_or(false) && c.2 == r.1 && c.3 == r.2
        })
}

pub fn protocol(rf: &RefTrace, real: &RealTrace) -> Option<Finding> {
    if matches!(real.construct, Construct::NotReached | Construct::Panic(_)) {
        return None;
    }
    // 1. constructor: exactly one output-reading call with every input-capable signal at default
    if real.construct_calls != 1 {
        return Some(Finding::new(
            "ctor-call-count",
            format!("constructor made {} driver calls", real.construct_calls),
        ));
    }
    let c0 = &real.calls[0];
    if !c0.reads {
        return Some(Finding::new("ctor-call-kind", "constructor used the write-only call"));
    }
    let got0: Vec<(usize, InVal)> = c0.inputs.iter().map(|i| (i.0, i.2)).collect();
    if got0 != rf.calls[0].inputs {
        return Some(Finding::new(
            "ctor-inputs",
            format!("constructor sent {:?}, prescribed defaults {:?}", c0.inputs, rf.calls[0].inputs),
        ));
    }
    if c0.inputs.iter().any(|i| i.3) {
        return Some(Finding::new("ctor-changed", format!("default vector flagged changed: {:?}", c0.inputs)));
    }
    // 2. per step accounting
    let mut expect_from = real.construct_calls;
    let mut ended = false;
    for (k, st) in real.steps.iter().enumerate() {
        if st.calls.0 != expect_from {
            return Some(Finding::new("call-log-gap", format!("step {k}: call range {:?} does not start at {expect_from}", st.calls)));
        }
        let n = st.calls.1 - st.calls.0;
        expect_from = st.calls.1;
        if ended {
            if !matches!(st.item, RealItem::End) || n != 0 {
                return Some(Finding::new(
                    "after-end",
                    format!("step {k} after end of iteration: item {:?}, {n} driver calls", brief_real(&st.item)),
                ));
            }
            continue;
        }
        match &st.item {
            RealItem::Row(row) => {
                if n != 1 {
                    return Some(Finding::new("calls-per-row", format!("step {k}: row produced with {n} driver calls")));
                }
                let call = &real.calls[st.calls.0];
                if !call_vs_row_inputs(real, call, row) {
                    return Some(Finding::new(
                        "call-differs-from-row",
                        format!("step {k}: driver received {:?} but row.inputs = {:?}", call.inputs, row.inputs),
                    ));
                }
                if let Some(RefItem::Row(want)) = rf.items.get(k) {
                    if call.reads != want.checked {
                        return Some(Finding::new(
                            "call-kind",
                            format!("step {k}: prescribed checked={}, crate used {} call", want.checked, if call.reads { "output-reading" } else { "write-only" }),
                        ));
                    }
                    if !want.checked && !row.outputs.is_empty() {
                        return Some(Finding::new("midclock-outputs", format!("step {k}: mid-clock row carries outputs {:?}", row.outputs)));
                    }
                    // device-side vector equals the prescribed one
                    let got: Vec<(usize, InVal)> = call.inputs.iter().map(|i| (i.0, i.2)).collect();
                    if let Some(wc) = rf.calls.get(want.call) {
                        if got != wc.inputs {
                            return Some(Finding::new(
                                "device-vector",
                                format!("step {k}: device received {:?}, prescribed {:?}", got, wc.inputs),
                            ));
                        }
                    }
                }
            }
            RealItem::ErrDriver { nonce, call } => {
                if n != 1 {
                    return Some(Finding::new("calls-per-driver-error", format!("step {k}: driver error item with {n} calls")));
                }
                let c = &real.calls[st.calls.0];
                if c.err_nonce != Some(*nonce) || *call != st.calls.0 {
                    return Some(Finding::new(
                        "driver-error-identity",
                        format!("step {k}: error item carries nonce {nonce} call {call}; the failing call was #{} nonce {:?}", st.calls.0, c.err_nonce),
                    ));
                }
            }
            RealItem::ErrRuntime(_) => {
                if n > 1 {
                    return Some(Finding::new("calls-per-runtime-error", format!("step {k}: runtime error item with {n} calls")));
                }
            }
            RealItem::End => {
                if n != 0 {
                    return Some(Finding::new("calls-at-end", format!("step {k}: end of iteration made {n} driver calls")));
                }
                ended = true;
            }
            RealItem::Panic(_) => return None,
        }
    }
    if expect_from != real.calls.len() {
        return Some(Finding::new(
            "unaccounted-calls",
            format!("{} driver calls logged, {} accounted for", real.calls.len(), expect_from),
        ));
    }
    None
}

// ------------------------------------------------------------------------------------------
// C03: attribution and verdict rules, decided from the observed history alone

pub fn check_rule(exp: ExpVal, out: OutVal) -> bool {
    match (exp, out) {
        (ExpVal::X, _) => true,
        (ExpVal::Z, OutVal::Z) => true,
        (ExpVal::V(a), OutVal::V(b)) => a == b,
        _ => false,
    }
}

pub fn attribution(cfg: &[Sig], real: &RealTrace) -> Option<Finding> {
    let outsigs: Vec<usize> = real
        .signals
        .iter()
        .enumerate()
        .filter(|(_, s)| s.kind != "in")
        .map(|(i, _)| i)
        .collect();
    for (k, st) in real.steps.iter().enumerate() {
        let RealItem::Row(row) = &st.item else { continue };
        if row.outputs.is_empty() {
            continue;
        }
        let got_sigs: Vec<usize> = row.outputs.iter().map(|o| o.0).collect();
        if got_sigs != outsigs {
            return Some(Finding::new(
                "outputs-signal-list",
                format!("row {k}: outputs are for signals {:?}, output-capable/virtual signals are {:?}", got_sigs, outsigs),
            ));
        }
        if st.calls.1 != st.calls.0 + 1 {
            continue; // C02's business
        }
        let call = &real.calls[st.calls.0];
        let Some(ans) = &call.answer else { continue };
        for (pos, (si, out, exp, chk, is_chk)) in row.outputs.iter().enumerate() {
            let s = &real.signals[*si];
            if s.kind != "virtual" {
                // what did the device report for this very signal in this very call?
                let reported: Vec<OutVal> = ans
                    .iter()
                    .filter(|(ci, _)| {
                        cfg.get(*ci).map(|c| c.name == s.name).unwrap_or(false)
                    })
                    .map(|(_, v)| *v)
                    .collect();
                let want = reported.first().copied().unwrap_or(OutVal::X);
                if *out != want {
                    return Some(Finding::new(
                        "output-attribution",
                        format!("row {k}: signal {} reported as {:?}; the device answered {:?} for it in this call (answer {:?})", s.name, out, reported, ans),
                    ));
                }
            }
            if *chk != check_rule(*exp, *out) {
                return Some(Finding::new("check-rule", format!("row {k} entry {pos}: check()={chk} for expected {exp:?} output {out:?}")));
            }
            if *is_chk != (*exp != ExpVal::X) {
                return Some(Finding::new("is-checked-rule", format!("row {k} entry {pos}: is_checked()={is_chk} for expected {exp:?}")));
            }
        }
        let want_fail: Vec<usize> = row
            .outputs
            .iter()
            .enumerate()
            .filter(|(_, o)| !check_rule(o.2, o.1))
            .map(|(i, _)| i)
            .collect();
        if want_fail != row.failing {
            return Some(Finding::new(
                "failing-outputs",
                format!("row {k}: failing_outputs() = {:?}, entries not passing = {:?}", row.failing, want_fail),
            ));
        }
    }
    None
}

// ------------------------------------------------------------------------------------------
// C06: binding by header name, complete vectors, `changed`

pub fn binding_structure(case: &Case, real: &RealTrace) -> Option<Finding> {
    let insigs: Vec<usize> = real
        .signals
        .iter()
        .enumerate()
        .filter(|(_, s)| s.kind == "in" || s.kind == "bidir")
        .map(|(i, _)| i)
        .collect();
    // configured signals come first in TestCase.signals, in the order given
    for (i, s) in case.signals.iter().enumerate() {
        if real.signals.get(i).map(|r| r.name.as_str()) != Some(s.name.as_str()) {
            return Some(Finding::new(
                "signal-list-order",
                format!("TestCase.signals[{i}] = {:?}, configured {:?}", real.signals.get(i), s.name),
            ));
        }
    }
    let mut prev: Option<Vec<(String, InVal)>> = real
        .calls
        .first()
        .map(|c| c.inputs.iter().map(|i| (i.1.clone(), i.2)).collect());
    for (k, st) in real.steps.iter().enumerate() {
        let RealItem::Row(row) = &st.item else {
            // an error item whose call was issued: that vector *was* handed to the driver
            if st.calls.1 > st.calls.0 {
                prev = Some(real.calls[st.calls.1 - 1].inputs.iter().map(|i| (i.1.clone(), i.2)).collect());
            }
            continue;
        };
        let got: Vec<usize> = row.inputs.iter().map(|i| i.0).collect();
        if got != insigs {
            return Some(Finding::new(
                "inputs-signal-list",
                format!("row {k}: inputs are for signals {:?}, input-capable signals are {:?}", got, insigs),
            ));
        }
        for (si, v, changed) in &row.inputs {
            let name = &real.signals[*si].name;
            let in_header = case.program.header.iter().any(|h| h == name);
            if *changed && !in_header {
                return Some(Finding::new("changed-on-omitted", format!("row {k}: input {name} is not in the header but flagged changed")));
            }
            if !*changed {
                if let Some(p) = &prev {
                    let pv = p.iter().find(|(n, _)| n == name).map(|x| x.1);
                    if pv != Some(*v) {
                        return Some(Finding::new(
                            "unchanged-but-differs",
                            format!("row {k}: input {name}={v:?} flagged unchanged, previous vector had {pv:?}"),
                        ));
                    }
                }
            }
        }
        // the previous vector is the one the driver received for this row
        if st.calls.1 > st.calls.0 {
            prev = Some(real.calls[st.calls.1 - 1].inputs.iter().map(|i| (i.1.clone(), i.2)).collect());
        }
    }
    None
}
