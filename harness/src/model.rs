//! The harness's own model of a test: program AST, signal configuration and device
//! script. This — never the text — is the ground truth the oracles work from.

use serde::{Deserialize, Serialize};

#[derive(Clone, Copy, Debug, PartialEq, Eq, Hash, Serialize, Deserialize)]
pub enum Radix {
    Dec,
    /// (upper-case X, upper-case digits)
    Hex(bool, bool),
    /// upper-case B
    Bin(bool),
    Oct,
}

#[derive(Clone, Copy, Debug, PartialEq, Eq, Hash, Serialize, Deserialize)]
pub enum UnOp {
    Neg,
    Not,
    BitNot,
}

#[derive(Clone, Copy, Debug, PartialEq, Eq, Hash, Serialize, Deserialize)]
pub enum BinOp {
    Mul,
    Div,
    Rem,
    Add,
    Sub,
    Shl,
    Shr,
    And,
    Xor,
    Or,
    Lt,
    Gt,
    Le,
    Ge,
    Eq,
    Ne,
}

pub const ALL_BINOPS: [BinOp; 16] = [
    BinOp::Mul,
    BinOp::Div,
    BinOp::Rem,
    BinOp::Add,
    BinOp::Sub,
    BinOp::Shl,
    BinOp::Shr,
    BinOp::And,
    BinOp::Xor,
    BinOp::Or,
    BinOp::Lt,
    BinOp::Gt,
    BinOp::Le,
    BinOp::Ge,
    BinOp::Eq,
    BinOp::Ne,
];

impl BinOp {
    /// Precedence level exactly as stated in property C08; smaller binds tighter.
    pub fn level(self) -> u8 {
        match self {
            BinOp::Mul | BinOp::Div | BinOp::Rem => 1,
            BinOp::Add | BinOp::Sub => 2,
            BinOp::Shl | BinOp::Shr => 3,
            BinOp::And => 4,
            BinOp::Xor => 5,
            BinOp::Or => 6,
            BinOp::Lt | BinOp::Gt | BinOp::Le | BinOp::Ge => 7,
            BinOp::Eq | BinOp::Ne => 8,
        }
    }
    pub fn text(self) -> &'static str {
        match self {
            BinOp::Mul => "*",
            BinOp::Div => "/",
            BinOp::Rem => "%",
            BinOp::Add => "+",
            BinOp::Sub => "-",
            BinOp::Shl => "<<",
            BinOp::Shr => ">>",
            BinOp::And => "&",
            BinOp::Xor => "^",
            BinOp::Or => "|",
            BinOp::Lt => "<",
            BinOp::Gt => ">",
            BinOp::Le => "<=",
            BinOp::Ge => ">=",
            BinOp::Eq => "=",
            BinOp::Ne => "!=",
        }
    }
}

impl UnOp {
    pub fn text(self) -> &'static str {
        match self {
            UnOp::Neg => "-",
            UnOp::Not => "!",
            UnOp::BitNot => "~",
        }
    }
}

#[derive(Clone, Debug, PartialEq, Eq, Hash, Serialize, Deserialize)]
pub enum Expr {
    /// Non-negative literal
    Num(i64, Radix),
    Ident(String),
    Un(UnOp, Box<Expr>),
    Bin(BinOp, Box<Expr>, Box<Expr>),
    Ite(Box<Expr>, Box<Expr>, Box<Expr>),
    Random(Box<Expr>),
    SignExt(Box<Expr>, Box<Expr>),
    /// Redundant parentheses around an expression
    Group(Box<Expr>),
}

#[derive(Clone, Debug, PartialEq, Eq, Hash, Serialize, Deserialize)]
pub enum Entry {
    Lit(i64, Radix),
    Paren(Expr),
    Bits(u8, Expr),
    /// bool = printed in lower case
    X(bool),
    Z(bool),
    C(bool),
}

impl Entry {
    /// Number of header columns this entry fills
    pub fn width(&self) -> usize {
        match self {
            Entry::Bits(k, _) => *k as usize,
            _ => 1,
        }
    }
}

#[derive(Clone, Debug, PartialEq, Eq, Hash, Serialize, Deserialize)]
pub enum Item {
    Let(String, Expr),
    /// (row id, entries)
    Row(usize, Vec<Entry>),
    /// (row id, bound, entries)
    Repeat(usize, Expr, Vec<Entry>),
    Loop(String, Expr, Vec<Item>),
    While(Expr, Vec<Item>),
    ResetRandom,
    Declare(String, Expr),
    Blank,
    Comment(String),
}

#[derive(Clone, Debug, PartialEq, Eq, Hash, Serialize, Deserialize)]
pub struct Program {
    pub header: Vec<String>,
    pub items: Vec<Item>,
}

#[derive(Clone, Copy, Debug, PartialEq, Eq, Hash, Serialize, Deserialize)]
pub enum InVal {
    V(i64),
    Z,
}

#[derive(Clone, Copy, Debug, PartialEq, Eq, Hash, Serialize, Deserialize)]
pub enum OutVal {
    V(i64),
    Z,
    X,
}

#[derive(Clone, Copy, Debug, PartialEq, Eq, Hash, Serialize, Deserialize)]
pub enum ExpVal {
    V(i64),
    Z,
    X,
}

#[derive(Clone, Debug, PartialEq, Eq, Hash, Serialize, Deserialize)]
pub enum SigKind {
    In(InVal),
    Out,
    Bidir(InVal),
    /// A virtual signal that is already part of the signal list handed to `with_signals`
    /// (taken from another TestCase's public `signals`), with its declared expression
    Virtual(Expr),
}

#[derive(Clone, Debug, PartialEq, Eq, Hash, Serialize, Deserialize)]
pub struct Sig {
    pub name: String,
    pub bits: usize,
    pub kind: SigKind,
}

impl Sig {
    pub fn is_input(&self) -> bool {
        matches!(self.kind, SigKind::In(_) | SigKind::Bidir(_))
    }
    pub fn is_output(&self) -> bool {
        matches!(self.kind, SigKind::Out | SigKind::Bidir(_))
    }
    pub fn default(&self) -> Option<InVal> {
        match &self.kind {
            SigKind::In(d) | SigKind::Bidir(d) => Some(*d),
            SigKind::Out | SigKind::Virtual(_) => None,
        }
    }
}

/// How the scripted device computes the value it reports for (call, signal).
#[derive(Clone, Debug, PartialEq, Eq, Hash, Serialize, Deserialize)]
pub enum ValueFn {
    /// Every (call, signal) pair gets a distinct number derived from `salt`; if `narrow`
    /// the number is reduced to the signal width (still distinct per call for >= 12 bits).
    Unique { salt: u64, narrow: bool },
    /// Unique numbers, but (call,signal) pairs selected by hash get Z / X / boundary values.
    /// `z`, `x`, `edge` are per-mille rates.
    Mixed {
        salt: u64,
        z: u32,
        x: u32,
        edge: u32,
    },
    /// Small numbers 0..modulus (so that expected == output happens naturally)
    Small { salt: u64, modulus: u64 },
    /// Explicit table: values[call % len][position in layout]
    Table(Vec<Vec<OutVal>>),
    /// Feedback device modelled on tests/data/Counter.dig: inputs named by index
    /// (clk, reset), outputs (count, tc). On a rising clock edge: reset or count == modulus-1
    /// -> 0, else count+1 (wrapping at the register width), as in tests/data/Counter.v.
    Counter {
        clk: usize,
        rst: Option<usize>,
        out: usize,
        tc: Option<usize>,
        modulus: i64,
        /// power-on value of the register and its width mask (Counter.v: 11, 15)
        init: i64,
        mask: i64,
    },
    /// `done` output becomes 1 from call number `after` on; all other outputs unique.
    DoneAfter { done: usize, after: usize, salt: u64 },
}

#[derive(Clone, Debug, PartialEq, Eq, Hash, Serialize, Deserialize)]
pub enum Fault {
    /// Driver returns Err with this nonce
    Error(u64),
    /// Layout deviations (only meaningful on output-reading calls)
    Drop(usize),
    AddUnknown,
    AddInput(usize),
    Duplicate(usize),
    Swap(usize, usize),
    /// Replace the signal at position .0 by config signal .1 (value keeps flowing)
    Substitute(usize, usize),
    /// Replace the signal at position .0 by a look-alike of itself: same name, but another type
    /// (.1 = 0), another width (1) or another default (2; falls back to the width for plain outputs)
    SubstituteTwin(usize, u8),
}

#[derive(Clone, Debug, PartialEq, Eq, Hash, Serialize, Deserialize)]
pub struct Script {
    /// Indices into the configured signal list: which outputs the device reports, in order
    pub layout: Vec<usize>,
    pub values: ValueFn,
    /// call index -> fault
    pub faults: Vec<(usize, Fault)>,
    /// Does the driver implement `write_input` itself?
    pub override_write: bool,
    /// Does the driver rebuild the storage of the `Signal`s it hands out on every call (a
    /// buffer that is cleared and refilled in answer order) instead of pointing into a fixed list?
    #[serde(default)]
    pub rebuild_signals: bool,
}

#[derive(Clone, Debug, PartialEq, Eq, Hash, Serialize, Deserialize)]
pub struct Case {
    pub program: Program,
    pub signals: Vec<Sig>,
    pub script: Script,
    pub layout_opts: crate::pp::Layout,
    /// RNG seed pinned through the hook for this case
    pub rng_seed: u64,
}

// ---------------------------------------------------------------------------------------
// Walkers

impl Expr {
    pub fn walk<'a>(&'a self, f: &mut dyn FnMut(&'a Expr)) {
        f(self);
        match self {
            Expr::Num(..) | Expr::Ident(_) => {}
            Expr::Un(_, e) | Expr::Random(e) | Expr::Group(e) => e.walk(f),
            Expr::Bin(_, a, b) | Expr::SignExt(a, b) => {
                a.walk(f);
                b.walk(f)
            }
            Expr::Ite(c, a, b) => {
                c.walk(f);
                a.walk(f);
                b.walk(f)
            }
        }
    }
    pub fn idents(&self) -> Vec<&str> {
        let mut v = vec![];
        self.walk(&mut |e| {
            if let Expr::Ident(n) = e {
                v.push(n.as_str())
            }
        });
        v
    }
    pub fn contains(&self, p: &dyn Fn(&Expr) -> bool) -> bool {
        let mut found = false;
        self.walk(&mut |e| {
            if p(e) {
                found = true
            }
        });
        found
    }
    pub fn op_count(&self) -> usize {
        let mut n = 0;
        self.walk(&mut |e| {
            if matches!(e, Expr::Bin(..) | Expr::Un(..)) {
                n += 1
            }
        });
        n
    }
    pub fn depth(&self) -> usize {
        match self {
            Expr::Num(..) | Expr::Ident(_) => 1,
            Expr::Un(_, e) | Expr::Random(e) | Expr::Group(e) => 1 + e.depth(),
            Expr::Bin(_, a, b) | Expr::SignExt(a, b) => 1 + a.depth().max(b.depth()),
            Expr::Ite(c, a, b) => 1 + c.depth().max(a.depth()).max(b.depth()),
        }
    }
}

impl Item {
    pub fn exprs(&self) -> Vec<&Expr> {
        match self {
            Item::Let(_, e) | Item::Declare(_, e) => vec![e],
            Item::Row(_, es) => entry_exprs(es),
            Item::Repeat(_, b, es) => {
                let mut v = vec![b];
                v.extend(entry_exprs(es));
                v
            }
            Item::Loop(_, b, _) => vec![b],
            Item::While(c, _) => vec![c],
            Item::ResetRandom | Item::Blank | Item::Comment(_) => vec![],
        }
    }
}

pub fn entry_exprs(es: &[Entry]) -> Vec<&Expr> {
    es.iter()
        .filter_map(|e| match e {
            Entry::Paren(x) | Entry::Bits(_, x) => Some(x),
            _ => None,
        })
        .collect()
}

pub fn walk_items<'a>(items: &'a [Item], depth: usize, f: &mut dyn FnMut(&'a Item, usize)) {
    for it in items {
        f(it, depth);
        match it {
            Item::Loop(_, _, inner) | Item::While(_, inner) => walk_items(inner, depth + 1, f),
            _ => {}
        }
    }
}

impl Program {
    /// Declared virtual signals in source order
    pub fn declares(&self) -> Vec<(&str, &Expr)> {
        let mut v = vec![];
        walk_items(&self.items, 0, &mut |it, _| {
            if let Item::Declare(n, e) = it {
                v.push((n.as_str(), e))
            }
        });
        v
    }
    pub fn any_expr(&self, p: &dyn Fn(&Expr) -> bool) -> bool {
        let mut found = false;
        walk_items(&self.items, 0, &mut |it, _| {
            for e in it.exprs() {
                if e.contains(p) {
                    found = true
                }
            }
        });
        found
    }
    pub fn uses_random(&self) -> bool {
        self.any_expr(&|e| matches!(e, Expr::Random(_)))
    }
}

/// Give every row item a fresh id in source order (ids link rows to printed lines).
pub fn renumber(items: &mut [Item], next: &mut usize) {
    for it in items {
        match it {
            Item::Row(id, _) | Item::Repeat(id, _, _) => {
                *next += 1;
                *id = *next;
            }
            Item::Loop(_, _, inner) | Item::While(_, inner) => renumber(inner, next),
            _ => {}
        }
    }
}
