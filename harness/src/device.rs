//! Scripted device simulation shared by the recording driver (real run) and the reference
//! interpreter. Pure function of (script, call index, input history).

use crate::model::*;
use crate::prng::mix;

#[derive(Clone, Debug, PartialEq, Eq)]
pub enum DevSig {
    /// Index into the configured signal list
    Cfg(usize),
    /// A signal the test knows nothing about
    Unknown,
    /// A look-alike of configured signal .0 that differs from it in one attribute (see
    /// `Fault::SubstituteTwin`): same name, not the same signal
    Twin(usize, u8),
}

#[derive(Clone, Debug, PartialEq, Eq)]
pub enum DevAnswer {
    Outputs(Vec<(DevSig, OutVal)>),
    Err(u64),
}

#[derive(Clone, Debug)]
pub struct DeviceSim {
    pub script: Script,
    count: i64,
    prev_clk: bool,
}

const EDGE: [i64; 12] = [
    i64::MIN,
    i64::MAX,
    -1,
    0,
    1,
    i64::MIN + 1,
    i64::MAX - 1,
    1 << 32,
    (1 << 32) - 1,
    -(1 << 31),
    255,
    256,
];

pub fn mask_bits(v: i64, bits: usize) -> i64 {
    if bits >= 64 {
        v
    } else {
        ((v as u64 as u128) & ((1u128 << bits) - 1)) as u64 as i64
    }
}

impl DeviceSim {
    pub fn new(script: &Script) -> Self {
        let count = match &script.values {
            ValueFn::Counter { init, .. } => *init,
            _ => 0,
        };
        DeviceSim {
            script: script.clone(),
            count,
            prev_clk: false,
        }
    }

    fn value(&self, call: usize, sig: usize, pos: usize, sigs: &[Sig]) -> OutVal {
        let bits = sigs.get(sig).map(|s| s.bits).unwrap_or(64);
        match &self.script.values {
            ValueFn::Unique { salt, narrow } => {
                let v = mix(&[*salt, call as u64, sig as u64]) as i64;
                OutVal::V(if *narrow { mask_bits(v, bits) } else { v })
            }
            ValueFn::Mixed { salt, z, x, edge } => {
                let hsh = mix(&[*salt ^ 0xABCD, call as u64, sig as u64]);
                let sel = (hsh % 1000) as u32;
                if sel < *z {
                    OutVal::Z
                } else if sel < z + x {
                    OutVal::X
                } else if sel < z + x + edge {
                    OutVal::V(EDGE[((hsh >> 20) % EDGE.len() as u64) as usize])
                } else {
                    OutVal::V(mix(&[*salt, call as u64, sig as u64]) as i64)
                }
            }
            ValueFn::Small { salt, modulus } => {
                OutVal::V((mix(&[*salt, call as u64, sig as u64]) % (*modulus).max(1)) as i64)
            }
            ValueFn::Table(rows) => {
                if rows.is_empty() {
                    return OutVal::X;
                }
                let row = &rows[call % rows.len()];
                if row.is_empty() {
                    OutVal::X
                } else {
                    row[pos % row.len()]
                }
            }
            ValueFn::Counter {
                out, tc, modulus, ..
            } => {
                if sig == *out {
                    OutVal::V(self.count)
                } else if Some(sig) == *tc {
                    OutVal::V((self.count == modulus - 1) as i64)
                } else {
                    OutVal::V(mix(&[0x77, call as u64, sig as u64]) as i64)
                }
            }
            ValueFn::DoneAfter { done, after, salt } => {
                if sig == *done {
                    OutVal::V((call >= *after) as i64)
                } else {
                    OutVal::V(mix(&[*salt, call as u64, sig as u64]) as i64)
                }
            }
        }
    }

    /// One device call. `reads` = the driver was entered through the output-reading method.
    pub fn call(
        &mut self,
        call: usize,
        reads: bool,
        inputs: &[(usize, InVal)],
        sigs: &[Sig],
    ) -> DevAnswer {
        // state update for feedback devices
        if let ValueFn::Counter {
            clk,
            rst,
            modulus,
            mask,
            ..
        } = &self.script.values
        {
            let get = |i: usize| {
                inputs
                    .iter()
                    .find(|(s, _)| *s == i)
                    .map(|(_, v)| *v)
                    .unwrap_or(InVal::V(0))
            };
            let c = matches!(get(*clk), InVal::V(v) if v & 1 == 1);
            if c && !self.prev_clk {
                let r = rst
                    .map(|r| matches!(get(r), InVal::V(v) if v & 1 == 1))
                    .unwrap_or(false);
                if r || self.count == *modulus - 1 {
                    self.count = 0;
                } else {
                    self.count = (self.count + 1) & *mask;
                }
            }
            self.prev_clk = c;
        }
        let fault = self
            .script
            .faults
            .iter()
            .find(|(c, _)| *c == call)
            .map(|(_, f)| f.clone());
        if let Some(Fault::Error(n)) = fault {
            return DevAnswer::Err(n);
        }
        let mut out: Vec<(DevSig, OutVal)> = self
            .script
            .layout
            .iter()
            .enumerate()
            .map(|(pos, &s)| (DevSig::Cfg(s), self.value(call, s, pos, sigs)))
            .collect();
        if reads {
            match fault {
                None | Some(Fault::Error(_)) => {}
                Some(Fault::Drop(p)) => {
                    if p < out.len() {
                        out.remove(p);
                    }
                }
                Some(Fault::AddUnknown) => {
                    out.push((DevSig::Unknown, OutVal::V(mix(&[0x99, call as u64]) as i64)))
                }
                Some(Fault::AddInput(s)) => {
                    out.push((DevSig::Cfg(s), OutVal::V(mix(&[0x98, call as u64]) as i64)))
                }
                Some(Fault::Duplicate(p)) => {
                    if p < out.len() {
                        let e = out[p].clone();
                        out.push(e);
                    }
                }
                Some(Fault::Swap(a, b)) => {
                    if a < out.len() && b < out.len() {
                        out.swap(a, b)
                    }
                }
                Some(Fault::Substitute(p, s)) => {
                    if p < out.len() {
                        out[p].0 = DevSig::Cfg(s)
                    }
                }
                Some(Fault::SubstituteTwin(p, k)) => {
                    if p < out.len() {
                        if let DevSig::Cfg(s) = out[p].0 {
                            out[p].0 = DevSig::Twin(s, k)
                        }
                    }
                }
            }
        }
        DevAnswer::Outputs(out)
    }
}
