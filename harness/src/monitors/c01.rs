//! C01 — control flow and variables determine exactly which rows run, and in what order.

use super::*;
use crate::gen::{self, GenCfg};
use crate::prng::Prng;

pub const META: Meta = Meta {
    id: "C01",
    level: "exploration",
    rule: "Cases = (program, signal list, scripted device) drawn by the grammar-directed generator (profile `flow`: let/loop/repeat/while nests to depth 4, bounds that are constants, <=0, variables, outer counters or device outputs; shadowing lets; bits(); no random, no hazards), printed to text; the crate's whole row stream (line, input values, expected values, end of iteration) is compared as a sequence with the stream prescribed by the reference interpreter for the same device answers. The first 100 338 (quick) / 4 429 535 (thorough) case indices are NOT sampled: they enumerate completely the program space `let x=0; row; STMT; row; let x=x+1; row` with STMT ::= row | let x=x+1 | let x=7 | repeat(B) row | loop(c,B) BLOCK | loop(x,B) BLOCK (shadowing) | let w=K; while(w) BLOCK let w=w-1, nesting depth <= 2, blocks of <= 2 statements (<= 1 at depth 2 in quick), B in {-1,0,1,2}, K in {0,1,2}; for these vars() after every row is compared too. A quarter of the counting whiles inside loops have their first binding hoisted to the top of the program, 15% of all counting whiles are doubled (while(c) directly inside while(c)); expressions of the shape e OP e and cancelling pairs occur in 3-4% of the inner nodes. Distinct = by hash of (source text, signals, device script). Non-trivial = reference prescribes >= 2 rows, executes >= 1 loop/while, and at least one of {loop bound <= 0, nesting depth >= 2, shadowing let, let inside a loop, device-derived value in an expression, while with zero iterations}.",
    assumptions: &[
        "reference interpreter refint (written from the property text) is the trusted base",
        "scripted device answers are a pure function of (call index, signal, input history)",
        "programs whose let rebinds the counter of its own loop are out of the statement's domain",
        "programs the reference cannot finish in 400 rows / 6000 steps are inconclusive, not counted",
    ],
    quick_cases: 100_338 + 150_000,
    thorough_cases: 4_429_535 + 2_000_000,
    floor: 14000,
};

pub fn profile() -> GenCfg {
    let mut c = GenCfg::base();
    c.max_depth = 4;
    c.w_in = [50, 40, 2, 3, 2];
    c.n_declares = (0, 1);
    c
}

pub fn run(case_seed: u64, acc: &mut Acc) {
    let mut r = Prng::new(case_seed);
    let mut cfg = profile();
    if r.chance(250, 1000) {
        // devices that answer Z / X now and then, and more declarations: error items (a virtual
        // signal that cannot be evaluated, a Z read) occur in the middle of the program and the
        // rows that follow them must still be the prescribed ones
        cfg.value_mode = 1;
        cfg.mixed_rates = (25, 25, 100);
        cfg.n_declares = (0, 2);
    }
    let case = gen::generate(&mut r, &cfg);
    check_case(&case, case_seed, "gen", acc);
}

pub fn check_case(case: &Case, case_seed: u64, variant: &str, acc: &mut Acc) {
    check_case_ext(case, case_seed, variant, acc, false)
}

pub fn check_case_ext(case: &Case, case_seed: u64, variant: &str, acc: &mut Acc, with_vars: bool) {
    acc.cases += 1;
    let Some(ran) = standard_run(case, acc, None) else {
        return;
    };
    let h = case_hash(case, &ran.pr);
    acc.distinct.insert(h);
    let f = first_some(vec![
        accepted(&ran.real),
        diff_items(&ran.pr, &ran.rf, &ran.real, if with_vars { Aspects { vars: true, ..Aspects::rows() } } else { Aspects::rows() }),
    ]);
    if let Some(f) = f {
        acc.violation(case_seed, variant, f, case_json(case, &ran.pr));
        return;
    }
    acc.held += 1;
    let st = &ran.rf.stats;
    acc.event("rows_compared", st.rows as u64);
    let control = st.loops_entered + st.while_iterations + st.whiles_zero > 0;
    let corner = st.loops_nonpositive > 0
        || st.max_depth >= 2
        || st.shadowing_lets > 0
        || st.lets_in_loop > 0
        || st.device_reads > 0
        || st.whiles_zero > 0;
    acc.tag_n("loop_bound_nonpositive", st.loops_nonpositive as u64);
    acc.tag_n("nesting_depth_ge2", (st.max_depth >= 2) as u64);
    acc.tag_n("shadowing_let", (st.shadowing_lets > 0) as u64);
    acc.tag_n("let_in_loop", (st.lets_in_loop > 0) as u64);
    acc.tag_n("device_value_read", (st.device_reads > 0) as u64);
    acc.tag_n("while_zero_iterations", (st.whiles_zero > 0) as u64);
    acc.tag_n("while_iterated", (st.while_iterations > 0) as u64);
    acc.tag_n("row_after_loop_end", (st.rows_after_loop_end > 0) as u64);
    acc.tag_n("x_or_c_expansion", (st.x_expansions + st.c_expansions + st.xc_expansions > 0) as u64);
    if st.rows >= 2 && control && corner {
        acc.nontrivial.insert(h);
        acc.sample(|| sample_json(case, &ran));
    }
}

/// Exhaustive enumeration of a small program space: all programs of <= 3 items per block,
/// depth <= 2, over a 1-input / 1-output header, loop bounds in {-1,0,1,2}.
pub fn exhaustive(tier: &str, acc: &mut Acc) -> Value {
    let sigs = vec![
        Sig { name: "A".into(), bits: 8, kind: SigKind::In(InVal::V(0)) },
        Sig { name: "Q".into(), bits: 64, kind: SigKind::Out },
    ];
    let script = Script {
        layout: vec![1],
        values: ValueFn::Small { salt: 7, modulus: 3 },
        faults: vec![],
        override_write: true, rebuild_signals: false,
    };
    let header = vec!["A".to_string(), "Q".to_string()];
    let bounds: Vec<Expr> = vec![
        Expr::Un(UnOp::Neg, Box::new(Expr::Num(1, Radix::Dec))),
        Expr::Num(0, Radix::Dec),
        Expr::Num(1, Radix::Dec),
        Expr::Num(2, Radix::Dec),
    ];
    let var = |n: &str| Expr::Ident(n.to_string());
    // atoms usable at any level
    let mut next_id = 0usize;
    let mut row = |a: Expr, q: Expr| {
        next_id += 1;
        Item::Row(next_id, vec![Entry::Paren(a), Entry::Paren(q)])
    };
    let atoms: Vec<Item> = vec![
        row(var("v"), Expr::Num(1, Radix::Dec)),
        Item::Let("v".into(), Expr::Bin(BinOp::Add, Box::new(var("v")), Box::new(Expr::Num(1, Radix::Dec)))),
    ];
    let inner_atoms: Vec<Item> = vec![
        row(var("i"), var("v")),
        Item::Let("v".into(), Expr::Bin(BinOp::Add, Box::new(var("v")), Box::new(var("i")))),
        Item::Let("v".into(), Expr::Num(5, Radix::Dec)),
    ];
    // blocks of inner atoms of length 0..=2
    let mut inner_blocks: Vec<Vec<Item>> = vec![vec![]];
    for a in &inner_atoms {
        inner_blocks.push(vec![a.clone()]);
        for b in &inner_atoms {
            inner_blocks.push(vec![a.clone(), b.clone()]);
        }
    }
    // second-level loops
    let mut l2: Vec<Item> = vec![];
    for b in &bounds {
        for blk in &inner_blocks {
            l2.push(Item::Loop("i".into(), b.clone(), blk.clone()));
        }
    }
    let max_l1 = if tier == "thorough" { usize::MAX } else { 6000 };
    // first-level: loop(j, b) { [atom|l2]{1..2} } or repeat or while(v<2)
    let mut level1: Vec<Item> = vec![];
    for b in &bounds {
        for x in l2.iter().step_by(if tier == "thorough" { 1 } else { 3 }) {
            level1.push(Item::Loop("j".into(), b.clone(), vec![x.clone()]));
            level1.push(Item::Loop("j".into(), b.clone(), vec![x.clone(), atoms[0].clone()]));
            level1.push(Item::Loop("i".into(), b.clone(), vec![inner_atoms[0].clone(), x.clone()]));
        }
        next_id += 1;
        level1.push(Item::Repeat(next_id, b.clone(), vec![Entry::Paren(var("n")), Entry::Paren(var("v"))]));
    }
    level1.extend(l2.iter().cloned());
    level1.truncate(max_l1);
    let mut n = 0u64;
    let before = acc.violation_count;
    for (k, x) in level1.iter().enumerate() {
        for tail in 0..2 {
            let mut items = vec![Item::Let("v".into(), Expr::Num(0, Radix::Dec)), atoms[0].clone()];
            items.push(x.clone());
            if tail == 1 {
                items.push(atoms[1].clone());
            }
            items.push(atoms[0].clone());
            renumber(&mut items, &mut 0);
            let case = Case {
                program: Program { header: header.clone(), items },
                signals: sigs.clone(),
                script: script.clone(),
                layout_opts: crate::pp::Layout::plain(),
                rng_seed: 1,
            };
            check_case(&case, k as u64, "exhaustive", acc);
            n += 1;
        }
    }
    json!({"exhaustive_small_space_programs": n, "violations_in_it": acc.violation_count - before,
           "space": "let v=0; row; <loop nest depth<=2 with bounds in {-1,0,1,2}, bodies of <=2 atoms from {row(i,v), let v=v+i, let v=5} | repeat>; [let v=v+1;] row"})
}


// ------------------------------------------------------------------------------------------
// Enumerated program space, addressed by case index (so that it is spread over the shards).
//
//   program  ::= let x = 0; row; STMT(0); row; let x = x + 1; row
//   STMT(d)  ::= row | let x = x + 1 | let x = 7 | repeat(B) row                     (7 leaves)
//              | loop(c_d, B) BLOCK(d+1) end loop | loop(x, B) BLOCK(d+1) end loop   (d < 2; the second shadows x)
//              | let w_d = K; while(w_d) BLOCK(d+1) let w_d = w_d - 1; end while     (d < 2; K in {0,1,2})
//   BLOCK(d) ::= sequences of 0..=L_d statements STMT(d)        L_1 = 2, L_2 = 1 (quick) / 2 (thorough)
//   B in {-1, 0, 1, 2};   row = (x) (innermost counter, or 0)
//
// Sizes: quick 100 338 programs, thorough 4 429 535 programs.

const LEAVES: u64 = 7;

fn blocks(s: u64, max_len: u32) -> u64 {
    (0..=max_len).map(|l| s.pow(l)).sum()
}

fn stmt_count(d: usize, len2: u32) -> u64 {
    if d >= 2 {
        LEAVES
    } else {
        let b = blocks(stmt_count(d + 1, len2), if d + 1 == 2 { len2 } else { 2 });
        LEAVES + 8 * b + 3 * b
    }
}

pub fn enum_size(thorough: bool) -> u64 {
    stmt_count(0, if thorough { 2 } else { 1 })
}

struct Dec {
    len2: u32,
    next_row: usize,
}

impl Dec {
    fn row(&mut self, counter: Option<&str>) -> Item {
        self.next_row += 1;
        let c = match counter {
            Some(c) => Expr::Ident(c.to_string()),
            None => Expr::Num(0, Radix::Dec),
        };
        Item::Row(self.next_row, vec![Entry::Paren(Expr::Ident("x".into())), Entry::Paren(c)])
    }
    fn block(&mut self, d: usize, mut code: u64, counter: Option<&str>) -> Vec<Item> {
        let s = stmt_count(d, self.len2);
        let max_len = if d == 2 { self.len2 } else { 2 };
        let mut len = 0;
        loop {
            let n = s.pow(len);
            if code < n {
                break;
            }
            code -= n;
            len += 1;
            debug_assert!(len <= max_len);
        }
        let mut out = vec![];
        for _ in 0..len {
            out.extend(self.stmt(d, code % s, counter));
            code /= s;
        }
        out
    }
    fn stmt(&mut self, d: usize, code: u64, counter: Option<&str>) -> Vec<Item> {
        let inc = |n: &str, by: i64| {
            Item::Let(n.into(), Expr::Bin(if by > 0 { BinOp::Add } else { BinOp::Sub }, Box::new(Expr::Ident(n.into())), Box::new(Expr::Num(1, Radix::Dec))))
        };
        let bound = |k: u64| match k {
            0 => Expr::Un(UnOp::Neg, Box::new(Expr::Num(1, Radix::Dec))),
            k => Expr::Num(k as i64 - 1, Radix::Dec),
        };
        match code {
            0 => vec![self.row(counter)],
            1 => vec![inc("x", 1)],
            2 => vec![Item::Let("x".into(), Expr::Num(7, Radix::Dec))],
            3..=6 => {
                self.next_row += 1;
                vec![Item::Repeat(self.next_row, bound(code - 3), vec![Entry::Paren(Expr::Ident("n".into())), Entry::Paren(Expr::Ident("x".into()))])]
            }
            _ => {
                let b = blocks(stmt_count(d + 1, self.len2), if d + 1 == 2 { self.len2 } else { 2 });
                let c = code - LEAVES;
                let kind = c / b;
                let inner = c % b;
                if kind < 8 {
                    let shadow = kind >= 4;
                    let name = if shadow { "x".to_string() } else { ["i", "j"][d].to_string() };
                    let body = self.block(d + 1, inner, Some(&name));
                    vec![Item::Loop(name, bound(kind % 4), body)]
                } else {
                    let w = ["w0", "w1"][d];
                    let k = (kind - 8) as i64;
                    let mut body = self.block(d + 1, inner, counter);
                    body.push(inc(w, -1));
                    vec![Item::Let(w.into(), Expr::Num(k, Radix::Dec)), Item::While(Expr::Ident(w.into()), body)]
                }
            }
        }
    }
}

pub fn enum_case(index: u64, thorough: bool) -> Case {
    let mut d = Dec { len2: if thorough { 2 } else { 1 }, next_row: 0 };
    let mut items = vec![Item::Let("x".into(), Expr::Num(0, Radix::Dec)), d.row(None)];
    items.extend(d.stmt(0, index, None));
    items.push(d.row(None));
    items.push(Item::Let("x".into(), Expr::Bin(BinOp::Add, Box::new(Expr::Ident("x".into())), Box::new(Expr::Num(1, Radix::Dec)))));
    items.push(d.row(None));
    Case {
        program: Program { header: vec!["A".into(), "Q".into()], items },
        signals: vec![
            Sig { name: "A".into(), bits: 8, kind: SigKind::In(InVal::V(0)) },
            Sig { name: "Q".into(), bits: 64, kind: SigKind::Out },
        ],
        script: Script { layout: vec![1], values: ValueFn::Small { salt: 7, modulus: 3 }, faults: vec![], override_write: index % 2 == 0, rebuild_signals: false },
        layout_opts: crate::pp::Layout::plain(),
        rng_seed: 1,
    }
}

pub fn run_indexed(index: u64, case_seed: u64, acc: &mut Acc) {
    let n = enum_size(acc.thorough);
    if index < n {
        let case = enum_case(index, acc.thorough);
        acc.event("enumerated_programs", 1);
        check_case_ext(&case, index, "enum", acc, true);
    } else {
        run(case_seed, acc);
    }
}
