//! C01 — control flow and variables determine exactly which rows run, and in what order.

use super::*;
use crate::gen::{self, GenCfg};
use crate::prng::Prng;

pub const META: Meta = Meta {
    id: "C01",
    level: "exploration",
    rule: "Cases = (program, signal list, scripted device) drawn by the grammar-directed generator (profile `flow`: let/loop/repeat/while nests to depth 4, bounds that are constants, <=0, variables, outer counters or device outputs; shadowing lets; bits(); no random, no hazards), printed to text; the crate's whole row stream (line, input values, expected values, end of iteration) is compared as a sequence with the stream prescribed by the reference interpreter for the same device answers. Distinct = by hash of (source text, signals, device script). Non-trivial = reference prescribes >= 2 rows, executes >= 1 loop/while, and at least one of {loop bound <= 0, nesting depth >= 2, shadowing let, let inside a loop, device-derived value in an expression, while with zero iterations}.",
    assumptions: &[
        "reference interpreter refint (written from the property text) is the trusted base",
        "scripted device answers are a pure function of (call index, signal, input history)",
        "programs whose let rebinds the counter of its own loop are out of the statement's domain",
        "programs the reference cannot finish in 400 rows / 6000 steps are inconclusive, not counted",
    ],
    quick_cases: 150000,
    thorough_cases: 3000000,
    floor: 500,
};

pub fn profile() -> GenCfg {
    let mut c = GenCfg::base();
    c.max_depth = 4;
    c.w_in = [50, 40, 2, 3, 2];
    c.n_declares = (0, 1);
    c
}

pub fn run(case_seed: u64, acc: &mut Acc) {
    let mut r = Prng::new(case_seed);
    let cfg = profile();
    let case = gen::generate(&mut r, &cfg);
    check_case(&case, case_seed, "gen", acc);
}

pub fn check_case(case: &Case, case_seed: u64, variant: &str, acc: &mut Acc) {
    acc.cases += 1;
    let Some(ran) = standard_run(case, acc, None) else {
        return;
    };
    let h = case_hash(case, &ran.pr);
    acc.distinct.insert(h);
    let f = first_some(vec![
        accepted(&ran.real),
        diff_items(&ran.pr, &ran.rf, &ran.real, Aspects::rows()),
    ]);
    if let Some(f) = f {
        acc.violation(case_seed, variant, f, case_json(case, &ran.pr));
        return;
    }
    acc.held += 1;
    let st = &ran.rf.stats;
    acc.event("rows_compared", st.rows as u64);
    let control = st.loops_entered + st.while_iterations + st.whiles_zero > 0;
    let corner = st.loops_nonpositive > 0
        || st.max_depth >= 2
        || st.shadowing_lets > 0
        || st.lets_in_loop > 0
        || st.device_reads > 0
        || st.whiles_zero > 0;
    acc.tag_n("loop_bound_nonpositive", st.loops_nonpositive as u64);
    acc.tag_n("nesting_depth_ge2", (st.max_depth >= 2) as u64);
    acc.tag_n("shadowing_let", (st.shadowing_lets > 0) as u64);
    acc.tag_n("let_in_loop", (st.lets_in_loop > 0) as u64);
    acc.tag_n("device_value_read", (st.device_reads > 0) as u64);
    acc.tag_n("while_zero_iterations", (st.whiles_zero > 0) as u64);
    acc.tag_n("while_iterated", (st.while_iterations > 0) as u64);
    acc.tag_n("row_after_loop_end", (st.rows_after_loop_end > 0) as u64);
    acc.tag_n("x_or_c_expansion", (st.x_expansions + st.c_expansions + st.xc_expansions > 0) as u64);
    if st.rows >= 2 && control && corner {
        acc.nontrivial.insert(h);
        acc.sample(|| sample_json(case, &ran));
    }
}

/// Exhaustive enumeration of a small program space: all programs of <= 3 items per block,
/// depth <= 2, over a 1-input / 1-output header, loop bounds in {-1,0,1,2}.
pub fn exhaustive(tier: &str, acc: &mut Acc) -> Value {
    let sigs = vec![
        Sig { name: "A".into(), bits: 8, kind: SigKind::In(InVal::V(0)) },
        Sig { name: "Q".into(), bits: 64, kind: SigKind::Out },
    ];
    let script = Script {
        layout: vec![1],
        values: ValueFn::Small { salt: 7, modulus: 3 },
        faults: vec![],
        override_write: true,
    };
    let header = vec!["A".to_string(), "Q".to_string()];
    let bounds: Vec<Expr> = vec![
        Expr::Un(UnOp::Neg, Box::new(Expr::Num(1, Radix::Dec))),
        Expr::Num(0, Radix::Dec),
        Expr::Num(1, Radix::Dec),
        Expr::Num(2, Radix::Dec),
    ];
    let var = |n: &str| Expr::Ident(n.to_string());
    // atoms usable at any level
    let mut next_id = 0usize;
    let mut row = |a: Expr, q: Expr| {
        next_id += 1;
        Item::Row(next_id, vec![Entry::Paren(a), Entry::Paren(q)])
    };
    let atoms: Vec<Item> = vec![
        row(var("v"), Expr::Num(1, Radix::Dec)),
        Item::Let("v".into(), Expr::Bin(BinOp::Add, Box::new(var("v")), Box::new(Expr::Num(1, Radix::Dec)))),
    ];
    let inner_atoms: Vec<Item> = vec![
        row(var("i"), var("v")),
        Item::Let("v".into(), Expr::Bin(BinOp::Add, Box::new(var("v")), Box::new(var("i")))),
        Item::Let("v".into(), Expr::Num(5, Radix::Dec)),
    ];
    // blocks of inner atoms of length 0..=2
    let mut inner_blocks: Vec<Vec<Item>> = vec![vec![]];
    for a in &inner_atoms {
        inner_blocks.push(vec![a.clone()]);
        for b in &inner_atoms {
            inner_blocks.push(vec![a.clone(), b.clone()]);
        }
    }
    // second-level loops
    let mut l2: Vec<Item> = vec![];
    for b in &bounds {
        for blk in &inner_blocks {
            l2.push(Item::Loop("i".into(), b.clone(), blk.clone()));
        }
    }
    let max_l1 = if tier == "thorough" { usize::MAX } else { 6000 };
    // first-level: loop(j, b) { [atom|l2]{1..2} } or repeat or while(v<2)
    let mut level1: Vec<Item> = vec![];
    for b in &bounds {
        for x in l2.iter().step_by(if tier == "thorough" { 1 } else { 3 }) {
            level1.push(Item::Loop("j".into(), b.clone(), vec![x.clone()]));
            level1.push(Item::Loop("j".into(), b.clone(), vec![x.clone(), atoms[0].clone()]));
            level1.push(Item::Loop("i".into(), b.clone(), vec![inner_atoms[0].clone(), x.clone()]));
        }
        next_id += 1;
        level1.push(Item::Repeat(next_id, b.clone(), vec![Entry::Paren(var("n")), Entry::Paren(var("v"))]));
    }
    level1.extend(l2.iter().cloned());
    level1.truncate(max_l1);
    let mut n = 0u64;
    let before = acc.violation_count;
    for (k, x) in level1.iter().enumerate() {
        for tail in 0..2 {
            let mut items = vec![Item::Let("v".into(), Expr::Num(0, Radix::Dec)), atoms[0].clone()];
            items.push(x.clone());
            if tail == 1 {
                items.push(atoms[1].clone());
            }
            items.push(atoms[0].clone());
            renumber(&mut items, &mut 0);
            let case = Case {
                program: Program { header: header.clone(), items },
                signals: sigs.clone(),
                script: script.clone(),
                layout_opts: crate::pp::Layout::plain(),
                rng_seed: 1,
            };
            check_case(&case, k as u64, "exhaustive", acc);
            n += 1;
        }
    }
    json!({"exhaustive_small_space_programs": n, "violations_in_it": acc.violation_count - before,
           "space": "let v=0; row; <loop nest depth<=2 with bounds in {-1,0,1,2}, bodies of <=2 atoms from {row(i,v), let v=v+i, let v=5} | repeat>; [let v=v+1;] row"})
}
