//! C15 — deterministic and re-runnable; static iteration equals any dynamic run.

use super::*;
use crate::gen;
use crate::prng::Prng;
use digital_test_runner::TestCase;

pub const META_C15: Meta = Meta {
    id: "C15",
    level: "exploration",
    rule: "Four monitors per case (profiles `flow`+`expand`+`virtual`, 0-5 declare statements, some programs using random with the seed pinned through the hook, ~40% static programs): (1) re-parse: the same text is parsed and bound 6 times in one process (fresh HashMap RandomState each time) - all TestCase values must be ==, with identical `signals` order and identical Display; a digest of (Display, signal order, row stream) is also written per case and the orchestrator compares the digests produced by two separate processes (the dev-profile and release-profile shards run the same cases); (2) re-iterate: 3 iterations of one &TestCase with fresh devices replaying one script (one of them entered through the deprecated alias run_iter, one iterating a clone() of the test without ever calling vars() - all other runs call vars() before the first next() and after every step) give identical item streams, vars() and driver call logs; (2b) abandon: an iterator is dropped after a random number of steps (possibly inside a C/X expansion), the next full iteration must equal the first; (2c) history independence (half of the cases): the test, iterated several times by then, is run against a SECOND device (layout rotated and one signal swapped for another so that the length stays, other values) and must behave like a freshly parsed and bound test against that device; a clone of it then gets another `bits` on one signal (a public field) and must behave like a test bound with that width from the start; (3) interleave: 2-4 iterators over one &TestCase, each with its own device, next() interleaved by round-robin / sequential / PRNG schedules - every stream equals the solo stream; (4) static: try_iter_static().is_ok() iff the model reads no outputs (scope rule of C11), and then its (inputs incl. changed, expected, line) stream equals the projection of every dynamic run against 4 devices (empty layout, all outputs unique numbers, all Z, permuted subset with X), error items at the same index, and against a fifth device that REFUSES one or two calls (the first row's among them): an error item stands where the static row stands and every other row equals the static row, `changed` flags included; 6% of the cases carry a planted variable that is in scope, never assigned on the executed path and named like a device output (such a program reads no outputs), and the static stream consumed through step_by(2..4) must deliver every k-th item of the plain stream (count() and last() on it must agree too), and try_iter(&mut static_test::Driver) (the crate's own zero-sized driver handed to the dynamic entry point) must deliver the static stream too. Non-trivial = >= 2 virtual signals, or >= 2 interleaved iterators with >= 3 rows each under a non-sequential schedule, or a static program with a C/X expansion.",
    assumptions: &["identical device scripts give identical answers (pure function of call index and signal)"],
    quick_cases: 40000,
    thorough_cases: 500000,
    floor: 3000,
};

#[derive(Clone, Debug, PartialEq, Eq)]
struct StaticItem {
    line: usize,
    inputs: Vec<(usize, InVal, bool)>,
    expected: Vec<(usize, ExpVal)>,
}

fn sidx(tc: &TestCase, s: &digital_test_runner::Signal) -> usize {
    tc.signals.iter().position(|x| std::ptr::eq(x, s)).unwrap_or(usize::MAX)
}

fn static_stream(tc: &TestCase, seed: u64, cap: usize) -> Result<Result<Vec<Result<StaticItem, String>>, String>, PanicInfo> {
    digital_test_runner::verif_hooks::set_seed_override(Some(seed));
    let r = guarded(|| match tc.try_iter_static() {
        Err(e) => Err(e.to_string()),
        Ok(it) => {
            let mut v = vec![];
            for item in it.take(cap) {
                match item {
                    Ok(row) => v.push(Ok(StaticItem {
                        line: row.line,
                        inputs: row.inputs.iter().map(|e| (sidx(tc, e.signal), from_in(e.value), e.changed)).collect(),
                        expected: row.expected.iter().map(|e| (sidx(tc, e.signal), from_exp(e.value))).collect(),
                    })),
                    Err(e) => {
                        v.push(Err(err_chain(&e)));
                        break;
                    }
                }
            }
            Ok(v)
        }
    });
    digital_test_runner::verif_hooks::set_seed_override(None);
    let _ = digital_test_runner::verif_hooks::take_draw_log();
    r
}

/// The static stream consumed through `step_by(step)` (i.e. `nth`): positions 0, step, 2*step ...
fn static_stream_stepped(tc: &TestCase, seed: u64, cap: usize, step: usize) -> Result<Vec<Result<StaticItem, String>>, PanicInfo> {
    digital_test_runner::verif_hooks::set_seed_override(Some(seed));
    let r = guarded(|| match tc.try_iter_static() {
        Err(_) => vec![],
        Ok(it) => it
            .step_by(step)
            .take(cap)
            .map(|item| match item {
                Ok(row) => Ok(StaticItem {
                    line: row.line,
                    inputs: row.inputs.iter().map(|e| (sidx(tc, e.signal), from_in(e.value), e.changed)).collect(),
                    expected: row.expected.iter().map(|e| (sidx(tc, e.signal), from_exp(e.value))).collect(),
                }),
                Err(e) => Err(err_chain(&e)),
            })
            .collect(),
    });
    digital_test_runner::verif_hooks::set_seed_override(None);
    let _ = digital_test_runner::verif_hooks::take_draw_log();
    r
}

/// The test run *dynamically* against the crate's own zero-sized `static_test::Driver` (which
/// answers every call with no outputs at all): for a program that reads no outputs this is one
/// more dynamic run, and must deliver what `try_iter_static` delivers.
fn static_driver_stream(tc: &TestCase, seed: u64, cap: usize) -> Result<Result<Vec<Result<StaticItem, String>>, String>, PanicInfo> {
    digital_test_runner::verif_hooks::set_seed_override(Some(seed));
    let r = guarded(|| {
        let mut d = digital_test_runner::static_test::Driver;
        let it = match tc.try_iter(&mut d) {
            Err(e) => return Err(err_chain(&e)),
            Ok(it) => it,
        };
        let mut v = vec![];
        for item in it.take(cap) {
            match item {
                Ok(row) => v.push(Ok(StaticItem {
                    line: row.line,
                    inputs: row.inputs.iter().map(|e| (sidx(tc, e.signal), from_in(e.value), e.changed)).collect(),
                    expected: row.outputs.iter().map(|e| (sidx(tc, e.signal), from_exp(e.expected))).collect(),
                })),
                Err(e) => {
                    v.push(Err(err_chain(&e)));
                    break;
                }
            }
        }
        Ok(v)
    });
    digital_test_runner::verif_hooks::set_seed_override(None);
    let _ = digital_test_runner::verif_hooks::take_draw_log();
    r
}

fn project(steps: &[RealStep]) -> Vec<Result<StaticItem, String>> {
    let mut v = vec![];
    for s in steps {
        match &s.item {
            RealItem::Row(r) => v.push(Ok(StaticItem {
                line: r.line,
                inputs: r.inputs.clone(),
                expected: r.outputs.iter().map(|o| (o.0, o.2)).collect(),
            })),
            RealItem::ErrRuntime(e) => {
                v.push(Err(e.clone()));
                break;
            }
            RealItem::ErrDriver { .. } | RealItem::Panic(_) => {
                v.push(Err("driver/panic".into()));
                break;
            }
            RealItem::End => break,
        }
    }
    v
}

fn same_items(a: &[RealStep], b: &[RealStep]) -> Option<usize> {
    let n = a.len().max(b.len());
    for i in 0..n {
        match (a.get(i), b.get(i)) {
            // (a run that never calls vars() has no snapshots to compare)
            (Some(x), Some(y)) if x.item == y.item && (x.vars == y.vars || x.vars.is_none() || y.vars.is_none()) => {}
            _ => return Some(i),
        }
    }
    None
}

pub fn c15(case_seed: u64, acc: &mut Acc) {
    let mut r = Prng::new(case_seed);
    let mut cfg = match r.below(3) {
        0 => super::c01::profile(),
        1 => super::dynamic::profile_expand(),
        _ => super::dynamic::profile_virtual(&mut r),
    };
    cfg.n_declares = (0, 5);
    cfg.max_depth = 3;
    cfg.block_items = (1, 4);
    if r.chance(250, 1000) {
        // boundary widths and boundary values: the static and the dynamic path, the first and
        // the later iterations must reduce them alike
        cfg.widths = 2;
        cfg.big_values = true;
    }
    let want_static = r.chance(400, 1000);
    if want_static {
        cfg.reads = 0;
        cfg.device_bounds = 0;
        cfg.n_declares = (0, 2);
    }
    if r.chance(150, 1000) {
        cfg.allow_random = 120;
        cfg.w_reset = 4;
    }
    let mut case = gen::generate(&mut r, &cfg);
    if want_static {
        // declarations read outputs; a static program has none that do
        // ... but constant expressions are fine, including ones that cannot be evaluated: the
        // static iterator must then yield the same error items as every dynamic run
        fn strip(items: &mut Vec<Item>, r: &mut Prng) {
            let n = |v: i64| Box::new(Expr::Num(v, Radix::Dec));
            for it in items.iter_mut() {
                match it {
                    Item::Declare(_, e) => {
                        *e = match r.below(8) {
                            0 => Expr::Bin(BinOp::Div, n(6), Box::new(Expr::Group(Box::new(Expr::Bin(BinOp::Sub, n(3), n(3)))))),
                            1 => Expr::Bin(BinOp::Rem, n(6), n(0)),
                            2 => Expr::SignExt(n(1), n(2)),
                            3 => Expr::Bin(BinOp::Shl, n(1), n(70)),
                            4 => Expr::Bin(BinOp::Add, n(3), n(4)),
                            _ => Expr::Num(7, Radix::Dec),
                        }
                    }
                    Item::Loop(_, _, inner) | Item::While(_, inner) => strip(inner, r),
                    _ => {}
                }
            }
        }
        strip(&mut case.program.items, &mut r);
    }
    // a variable in scope that is never assigned on the executed path and is named like a
    // device output: the program still reads no outputs, so static and dynamic runs must agree
    if r.chance(60, 1000) {
        if gen::plant_unassigned_clash(&mut case, &mut r).is_some() {
            let mut next = 0;
            renumber(&mut case.program.items, &mut next);
            acc.event("planted_unassigned_variable_named_like_output", 1);
        }
    }
    acc.cases += 1;
    // pre-flight with the reference (draws faked at their maximum): programs that would not
    // finish within the budgets are not run at all
    {
        let pre = RefOpts { fake_draws: true, max_rows: 220, max_steps: 4000, ..Default::default() };
        if let RefOutcome::Inconclusive(why) = refint::run(&case.program, &case.signals, &case.script, pre) {
            acc.inconclusive(&format!("reference pre-flight: {why}"));
            return;
        }
    }
    let pr = pp::print(&case.program, &case.layout_opts);
    let h = case_hash(&case, &pr);
    acc.distinct.insert(h);
    let seed = case.rng_seed;
    macro_rules! viol {
        ($f:expr) => {{
            acc.violation(case_seed, "gen", $f, case_json(&case, &pr));
            return;
        }};
    }
    // ---------------- (1) re-parse
    let mut tcs: Vec<TestCase> = vec![];
    for i in 0..6 {
        let (ps, parsed) = parse(&pr.text);
        let Some(parsed) = parsed else {
            viol!(Finding::new(if let Stage::Panic(p) = &ps { p.signature() } else { "rejected-valid-program:parse".into() }, format!("parse #{i}: {ps:?}")))
        };
        let (bs, tc) = bind(parsed, &case.signals);
        let Some(tc) = tc else {
            viol!(Finding::new(if let Stage::Panic(p) = &bs { p.signature() } else { "rejected-valid-program:bind".into() }, format!("bind #{i}: {bs:?}")))
        };
        tcs.push(tc);
    }
    acc.evaluations += 6;
    let names = |tc: &TestCase| tc.signals.iter().map(|s| s.name.clone()).collect::<Vec<_>>();
    for i in 1..tcs.len() {
        if names(&tcs[i]) != names(&tcs[0]) {
            viol!(Finding::new("signals-order-nondeterministic", format!("parse #0 gives signals {:?}, parse #{i} gives {:?}", names(&tcs[0]), names(&tcs[i]))));
        }
        if tcs[i] != tcs[0] {
            viol!(Finding::new("testcase-not-equal", format!("parse #{i} != parse #0:\n{}\nvs\n{}", tcs[i], tcs[0])));
        }
        if tcs[i].to_string() != tcs[0].to_string() {
            viol!(Finding::new("display-differs", format!("Display of parse #{i} differs")));
        }
    }
    let tc = &tcs[0];
    // the static iterator once BEFORE any dynamic iterator exists on this test (compared with
    // the one taken after all the dynamic runs, below)
    let static_before = static_stream(tc, seed, 200);
    // ---------------- (2) re-iterate
    let opts = RunOpts { max_steps: 200, probe_after_end: 1, stop_at_error: true, seed: Some(seed), continue_on: None };
    let solo = run_bound(tc, &case.signals, &case.script, &opts);
    acc.evaluations += 1;
    if solo.3.len() >= 200 {
        acc.inconclusive("program too long");
        return;
    }
    for (k, _) in solo.3.iter().enumerate() {
        if let RealItem::Panic(p) = &solo.3[k].item {
            viol!(Finding::new(p.signature(), format!("next() #{k} panicked: {p:?}")));
        }
    }
    if let Construct::Panic(p) = &solo.0 {
        viol!(Finding::new(p.signature(), format!("constructor panicked: {p:?}")));
    }
    let cloned = tc.clone();
    if cloned != *tc {
        viol!(Finding::new("clone-differs", "TestCase::clone() != the original".to_string()));
    }
    for rep in 0..3 {
        // the second repetition enters through the deprecated alias `run_iter`, the third
        // iterates a clone of the test
        // ... and never calls vars() (all other runs call it before the first next() and after
        // every step)
        ENTER_THROUGH_RUN_ITER.with(|c| c.set(rep == 1));
        NEVER_CALL_VARS.with(|c| c.set(rep == 2));
        let again = run_bound(if rep == 0 { tc } else if rep == 1 { &tcs[2] } else { &cloned }, &case.signals, &case.script, &opts);
        ENTER_THROUGH_RUN_ITER.with(|c| c.set(false));
        NEVER_CALL_VARS.with(|c| c.set(false));
        acc.evaluations += 1;
        if format!("{:?}", again.0) != format!("{:?}", solo.0) {
            viol!(Finding::new("reiterate-constructor-differs", format!("{:?} vs {:?}", again.0, solo.0)));
        }
        if let Some(i) = same_items(&solo.3, &again.3) {
            viol!(Finding::new("reiterate-differs", format!("iteration #{} differs from the first at item {i}: {:?} vs {:?}", rep + 2, again.3.get(i).map(|s| &s.item), solo.3.get(i).map(|s| &s.item))));
        }
        if again.4 != solo.4 {
            let k = (0..again.4.len().min(solo.4.len())).find(|&k| again.4[k] != solo.4[k]).unwrap_or(again.4.len().min(solo.4.len()));
            viol!(Finding::new("reiterate-driver-calls-differ", format!("iteration #{} makes driver call #{k} {:?}, the first iteration {:?}", rep + 2, again.4.get(k), solo.4.get(k))));
        }
    }
    // ---------------- (2b) abandon an iterator part-way (also in the middle of a C/X
    // expansion), then iterate again: the earlier iterator must leave nothing behind
    if matches!(solo.0, Construct::Ok) && solo.3.len() >= 2 {
        let k = 1 + r.below(solo.3.len() - 1);
        {
            let mut d = RecDriver::new(&case.signals, &case.script);
            let (_, s, _) = construct(tc, &mut d, Some(seed));
            if let Some(mut s) = s {
                for _ in 0..k {
                    let st = s.step();
                    if !matches!(st.item, RealItem::Row(_)) {
                        break;
                    }
                }
            }
            // iterator and driver dropped here
        }
        let again = run_bound(tc, &case.signals, &case.script, &opts);
        acc.evaluations += 2;
        acc.event("abandoned_iterators", 1);
        if let Some(i) = same_items(&solo.3, &again.3) {
            viol!(Finding::new(
                "iteration-after-abandoned-iterator-differs",
                format!("an iterator was dropped after {k} steps; the next full iteration differs from the first at item {i}: {:?} vs {:?}", again.3.get(i).map(|s| &s.item), solo.3.get(i).map(|s| &s.item))
            ));
        }
        // the static iterator shares the machinery
        if let Ok(Ok(items)) = static_stream(tc, seed, 1 + r.below(4)) {
            let _ = items;
        }
    }
    // ---------------- (2c) history independence: what a test does against a device must not
    // depend on which devices it met before, nor on when a public field got its value
    if matches!(solo.0, Construct::Ok) && r.chance(500, 1000) {
        let outs: Vec<usize> = (0..case.signals.len()).filter(|&i| case.signals[i].is_output() && !matches!(case.signals[i].kind, SigKind::Virtual(_))).collect();
        let mut script_b = case.script.clone();
        script_b.faults.clear();
        if !script_b.layout.is_empty() {
            script_b.layout.rotate_left(1);
            if let Some(o) = outs.iter().find(|o| !script_b.layout.contains(o)) {
                // same length, another set of signals
                script_b.layout[0] = *o;
            }
        }
        script_b.values = ValueFn::Unique { salt: r.next_u64(), narrow: true };
        let fresh = parse(&pr.text).1.and_then(|p| bind(p, &case.signals).1);
        if let Some(fresh) = fresh {
            let want = run_bound(&fresh, &case.signals, &script_b, &opts);
            // `tc` has been iterated several times against the first device by now
            let got = run_bound(tc, &case.signals, &script_b, &opts);
            acc.evaluations += 2;
            acc.event("runs_against_a_second_device_after_the_first", 1);
            if format!("{:?}", want.0) != format!("{:?}", got.0) {
                viol!(Finding::new("history-dependent-constructor", format!("against a second device (layout {:?}): a test that met another device before gives {:?}, a fresh one {:?}", script_b.layout, got.0, want.0)));
            }
            if let Some(i) = same_items(&want.3, &got.3) {
                viol!(Finding::new(
                    "history-dependent-iteration",
                    format!("against a second device (layout {:?}): item {i} is {:?} for a test that met another device before, {:?} for a fresh one", script_b.layout, got.3.get(i).map(|s| &s.item), want.3.get(i).map(|s| &s.item))
                ));
            }
        }
        // a public field that gets another value after the test has been iterated: `bits`
        let cand: Vec<usize> = (0..case.signals.len()).filter(|&i| !matches!(case.signals[i].kind, SigKind::Virtual(_))).collect();
        if !cand.is_empty() {
            let i = *r.pick(&cand);
            let alts: Vec<usize> = [1usize, 2, 8, 16, 33, 63, 64].into_iter().filter(|&b| b != case.signals[i].bits).collect();
            let alt = *r.pick(&alts);
            let mut sigs2 = case.signals.clone();
            sigs2[i].bits = alt;
            let mut changed = tc.clone();
            if let Some(s) = changed.signals.iter_mut().find(|s| s.name == case.signals[i].name) {
                s.bits = alt;
            }
            let fresh2 = parse(&pr.text).1.and_then(|p| bind(p, &sigs2).1);
            if let Some(fresh2) = fresh2 {
                let want = run_bound(&fresh2, &sigs2, &case.script, &opts);
                let got = run_bound(&changed, &sigs2, &case.script, &opts);
                acc.evaluations += 2;
                acc.event("runs_after_changing_the_width_of_a_signal_of_an_iterated_test", 1);
                if format!("{:?}", want.0) != format!("{:?}", got.0) {
                    viol!(Finding::new("history-dependent-constructor", format!("signal {} set to {alt} bits after the test had been iterated: constructor {:?}, a test bound with that width from the start {:?}", case.signals[i].name, got.0, want.0)));
                }
                if let Some(k) = same_items(&want.3, &got.3) {
                    viol!(Finding::new(
                        "width-change-after-iteration-ignored",
                        format!("signal {} set to {alt} bits (was {}) after the test had been iterated: item {k} is {:?}, a test bound with that width from the start gives {:?}", case.signals[i].name, case.signals[i].bits, got.3.get(k).map(|s| &s.item), want.3.get(k).map(|s| &s.item))
                    ));
                }
            }
        }
    }
    // ---------------- (3) interleave
    let n_it = 2 + r.below(3);
    let sched_kind = r.below(3);
    let mut interleaved_ok_rows = 0usize;
    if matches!(solo.0, Construct::Ok) {
        let mut drivers: Vec<RecDriver> = (0..n_it).map(|_| RecDriver::new(&case.signals, &case.script)).collect();
        let mut sessions = vec![];
        for d in drivers.iter_mut() {
            let (c, s, _) = construct(tc, d, Some(seed));
            match s {
                Some(s) => sessions.push(s),
                None => viol!(Finding::new("interleave-constructor-differs", format!("solo constructor ok, interleaved gave {c:?}"))),
            }
        }
        let mut streams: Vec<Vec<RealStep>> = vec![vec![]; n_it];
        let mut done = vec![false; n_it];
        let mut sched_log = vec![];
        let mut turn = 0usize;
        while done.iter().any(|d| !d) && sched_log.len() < 1200 {
            let live: Vec<usize> = (0..n_it).filter(|&i| !done[i]).collect();
            let i = match sched_kind {
                0 => live[turn % live.len()],            // round robin
                1 => live[0],                            // run to end, then next
                _ => live[r.below(live.len())],          // PRNG schedule
            };
            turn += 1;
            sched_log.push(i);
            let st = sessions[i].step();
            let fin = matches!(st.item, RealItem::End | RealItem::Panic(_) | RealItem::ErrDriver { .. } | RealItem::ErrRuntime(_));
            streams[i].push(st);
            if fin {
                done[i] = true;
            }
        }
        acc.evaluations += n_it as u64;
        acc.event("interleaved_next_calls", sched_log.len() as u64);
        acc.tag(["schedule_round_robin", "schedule_sequential", "schedule_prng"][sched_kind]);
        // solo stream up to and including its first terminal item
        let cut = solo.3.iter().position(|s| !matches!(s.item, RealItem::Row(_))).map(|p| p + 1).unwrap_or(solo.3.len());
        for (i, s) in streams.iter().enumerate() {
            if let Some(k) = same_items(&solo.3[..cut], s) {
                viol!(Finding::new(
                    "interleave-differs",
                    format!("iterator {i} of {n_it} under schedule {:?}... differs from the solo run at item {k}: {:?} vs {:?}", &sched_log[..sched_log.len().min(24)], s.get(k).map(|x| &x.item), solo.3.get(k).map(|x| &x.item)),
                ));
            }
        }
        interleaved_ok_rows = cut;
    }
    // ---------------- (4) static
    let reads = crate::scope::test_output_reads(&case.program, &case.signals);
    let st = match static_stream(tc, seed, 200) {
        Err(p) => viol!(Finding::new(p.signature(), format!("static iteration panicked: {p:?}"))),
        Ok(s) => s,
    };
    acc.evaluations += 2;
    match (&static_before, &st) {
        (Ok(a), b) if a != b => viol!(Finding::new(
            "static-iteration-depends-on-history",
            format!("try_iter_static before any dynamic iteration gave {:?}..., after them {:?}...", a.as_ref().map(|v| v.len()), b.as_ref().map(|v| v.len()))
        )),
        (Err(p), _) => viol!(Finding::new(p.signature(), format!("static iteration panicked: {p:?}"))),
        _ => {}
    }
    let mut static_expansion = false;
    match (&st, reads.is_empty()) {
        (Ok(_), false) => viol!(Finding::new("static-accepts-dynamic-test", format!("program reads {:?} but try_iter_static succeeded", reads))),
        (Err(e), true) => viol!(Finding::new("static-refused", format!("program reads no outputs but try_iter_static failed: {e}"))),
        (Err(_), false) => acc.tag("static_correctly_refused"),
        (Ok(sitems), true) => {
            acc.tag("static_accepted");
            let outs: Vec<usize> = (0..case.signals.len()).filter(|&i| case.signals[i].is_output()).collect();
            let mut sub = outs.clone();
            r.shuffle(&mut sub);
            sub.truncate(sub.len() / 2 + 1);
            let devices = vec![
                Script { layout: vec![], values: ValueFn::Unique { salt: 1, narrow: false }, faults: vec![], override_write: true, rebuild_signals: false },
                Script { layout: outs.clone(), values: ValueFn::Unique { salt: r.next_u64(), narrow: false }, faults: vec![], override_write: false, rebuild_signals: false },
                Script { layout: outs.clone(), values: ValueFn::Table(vec![vec![OutVal::Z]]), faults: vec![], override_write: true , rebuild_signals: false},
                Script { layout: sub, values: ValueFn::Mixed { salt: r.next_u64(), z: 100, x: 400, edge: 200 }, faults: vec![], override_write: false, rebuild_signals: false },
            ];
            for (di, d) in devices.iter().enumerate() {
                let dynr = run_bound(tc, &case.signals, d, &opts);
                acc.evaluations += 1;
                let proj = project(&dynr.3);
                // virtual signals over Z outputs may legitimately turn a dynamic row into an
                // error item; static programs have no such declarations (they read nothing)
                let cmp_len = proj.len().max(sitems.len());
                for k in 0..cmp_len {
                    let same = match (proj.get(k), sitems.get(k)) {
                        (Some(Ok(a)), Some(Ok(b))) => a == b,
                        (Some(Err(_)), Some(Err(_))) => true,
                        _ => false,
                    };
                    if !same {
                        viol!(Finding::new(
                            "static-differs-from-dynamic",
                            format!("device #{di}: item {k}: dynamic {:?} vs static {:?}", proj.get(k), sitems.get(k)),
                        ));
                    }
                }
            }
            // a driver that REFUSES one or two calls (the first row's among them): an error item
            // stands where the static row stands, every other row is the static row still -
            // values, expected values, lines and `changed` flags
            if sitems.len() >= 2 && sitems.len() < 200 && sitems.iter().all(|i| i.is_ok()) {
                let c = if r.chance(1, 2) { 1 } else { 1 + r.below(sitems.len()) };
                let mut faults = vec![(c, Fault::Error(r.next_u64() >> 1))];
                if r.chance(1, 3) {
                    faults.push((c + 1, Fault::Error(r.next_u64() >> 1)));
                }
                let d = Script { layout: outs.clone(), values: ValueFn::Unique { salt: r.next_u64(), narrow: false }, faults, override_write: r.chance(1, 2), rebuild_signals: false };
                let o2 = RunOpts { max_steps: 200, probe_after_end: 1, stop_at_error: false, seed: Some(seed), continue_on: Some(vec![true; 210]) };
                let dynr = run_bound(tc, &case.signals, &d, &o2);
                acc.evaluations += 1;
                for (k, want) in sitems.iter().enumerate() {
                    let Ok(want) = want else { continue };
                    let ok = match dynr.3.get(k).map(|s| &s.item) {
                        Some(RealItem::ErrDriver { .. }) => k + 1 == c || k == c,
                        Some(RealItem::Row(row)) => {
                            StaticItem { line: row.line, inputs: row.inputs.clone(), expected: row.outputs.iter().map(|o| (o.0, o.2)).collect() } == *want
                        }
                        _ => false,
                    };
                    if !ok {
                        viol!(Finding::new(
                            "static-differs-from-dynamic",
                            format!("driver refusing call {c}: item {k}: dynamic {:?} vs static {:?}", dynr.3.get(k).map(|s| &s.item), want),
                        ));
                    }
                }
                acc.event("static_rows_compared_with_a_refusing_driver", sitems.len() as u64);
            }
            acc.event("static_rows_compared_x4_devices", sitems.len() as u64);
            // ... and the crate's own static driver handed to try_iter
            if r.chance(300, 1000) {
                match static_driver_stream(tc, seed, 200) {
                    Err(p) => viol!(Finding::new(p.signature(), format!("try_iter(&mut static_test::Driver) panicked: {p:?}"))),
                    Ok(Err(e)) => viol!(Finding::new("static-driver-refused", format!("program reads no outputs but try_iter(&mut static_test::Driver) failed: {e}"))),
                    Ok(Ok(ditems)) => {
                        acc.evaluations += 1;
                        let same = ditems.len() == sitems.len()
                            && ditems.iter().zip(sitems.iter()).all(|(a, b)| match (a, b) {
                                (Ok(a), Ok(b)) => a == b,
                                (Err(_), Err(_)) => true,
                                _ => false,
                            });
                        if !same {
                            viol!(Finding::new(
                                "static-differs-from-dynamic",
                                format!("try_iter(&mut static_test::Driver) gives {} items, try_iter_static {}: first difference {:?}", ditems.len(), sitems.len(), ditems.iter().zip(sitems.iter()).find(|(a, b)| a != b)),
                            ));
                        }
                        acc.event("static_driver_streams_compared", 1);
                    }
                }
            }
            // the static stream consumed through step_by / nth delivers the same items
            if sitems.len() >= 3 && sitems.len() < 200 && sitems.iter().all(|i| i.is_ok()) {
                let step = 2 + r.below(3);
                match static_stream_stepped(tc, seed, 200, step) {
                    Err(p) => viol!(Finding::new(p.signature(), format!("static iteration through step_by({step}) panicked: {p:?}"))),
                    Ok(stepped) => {
                        acc.evaluations += 1;
                        let want: Vec<_> = sitems.iter().step_by(step).cloned().collect();
                        if stepped != want {
                            viol!(Finding::new(
                                "static-adaptor-item-differs",
                                format!("try_iter_static().step_by({step}) delivers {} items {:?}..., every {step}-th item of the plain stream is {:?}...", stepped.len(), stepped.first(), want.first()),
                            ));
                        }
                        acc.event("static_step_by_streams_compared", 1);
                    }
                }
                // ... and count() / last() on it agree with the plain stream
                digital_test_runner::verif_hooks::set_seed_override(Some(seed));
                let cl = guarded(|| {
                    let c = tc.try_iter_static().map(|it| it.count()).unwrap_or(usize::MAX);
                    let l = tc.try_iter_static().ok().and_then(|it| it.last()).map(|r| r.map(|row| row.line).map_err(|e| err_chain(&e)));
                    (c, l)
                });
                digital_test_runner::verif_hooks::set_seed_override(None);
                let _ = digital_test_runner::verif_hooks::take_draw_log();
                match cl {
                    Err(p) => viol!(Finding::new(p.signature(), format!("count()/last() on the static iterator panicked: {p:?}"))),
                    Ok((c, l)) => {
                        acc.evaluations += 2;
                        let want_last = sitems.last().map(|i| i.as_ref().map(|x| x.line).map_err(|e| e.clone()));
                        if c != sitems.len() || l != want_last {
                            viol!(Finding::new(
                                "static-adaptor-item-differs",
                                format!("try_iter_static(): count() = {c}, last() = {l:?}; the plain stream has {} items, the last one {want_last:?}", sitems.len()),
                            ));
                        }
                    }
                }
            }
            let info = crate::scope::analyse(&case.program);
            static_expansion = !info.c_columns.is_empty()
                || case.program.any_expr(&|_| false)
                || pr.text.lines().skip(1).any(|l| l.split_whitespace().any(|t| t == "X" || t == "x"));
        }
    }
    acc.held += 1;
    // digest for the cross-process comparison
    let mut dg = tc.to_string();
    dg.push_str(&format!("{:?}", names(tc)));
    for s in &solo.3 {
        dg.push_str(&format!("{:?}{:?}", s.item, s.vars));
    }
    acc.digests.push((case_seed, crate::prng::hash_bytes(dg.as_bytes())));
    let n_virtual = case.program.declares().len();
    acc.tag_n("ge2_virtual_signals", (n_virtual >= 2) as u64);
    acc.tag_n("uses_random_with_pinned_seed", case.program.uses_random() as u64);
    let nt = n_virtual >= 2 || (n_it >= 2 && interleaved_ok_rows >= 4 && sched_kind != 1) || static_expansion;
    if nt {
        acc.nontrivial.insert(h);
        acc.sample(|| json!({"text": pr.text, "iterators": n_it, "schedule": (["round-robin", "sequential", "prng"][sched_kind]), "virtual_signals": n_virtual, "static": reads.is_empty()}));
    }
}
