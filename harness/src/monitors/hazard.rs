//! C10 (no panics, hazards become error items) and C17 (random / resetRandom).

use super::*;
use crate::gen::{self, GenCfg};
use crate::prng::Prng;
use crate::refint::{RefErr, RefItem};

pub const META_C10: Meta = Meta {
    id: "C10",
    level: "exploration",
    rule: "Cases from profile `hazard`: accepted (program, signal list) pairs seeded with / and % by literal 0, by variables and device outputs that may be 0, MIN/-1, overflowing + - *, shift counts like -1/63/64/65, random(0), random(1), random(-5), random(device output), signExt, variables first bound inside a while body that may run zero times and are used afterwards, widths from {1,2,7,8,16,31,32,33,48,62,63,64} on inputs, outputs and bidirectionals, bits(0,e), device answers Z/X at ~6% of (call,signal), driver errors at a random call in 25% of cases; plus try_iter_static on every program that reads no outputs, and a fixed list of bits(64,e) rows. Oracle: every stage runs under catch_unwind and must never panic (signature = site+message); the item at which the reference says evaluation is impossible (zero divisor, unassigned variable with no output of that name supplied, empty random range [a drawn value is accepted too], unimplemented function) must be an error item; everything else must follow the prescribed row stream; the caller stops at the first error item. 1.5% of the cases are very wide tests (129-300 columns, inputs / outputs / X / C / Z concentrated in the highest columns), 2.5% rebind a loop's own counter to MAX / MAX-1 / 2^40 (no panic, termination, vars() within the textual scope). Non-trivial = the reference reaches >= 1 hazard on the executed path, or the configuration has a 63/64-bit signal, or a Z/X read / driver error item occurs.",
    assumptions: &["reference interpreter; draw log from the hook for programs using random"],
    quick_cases: 150000,
    thorough_cases: 3000000,
    floor: 13000,
};

pub fn profile_hazard(r: &mut Prng) -> GenCfg {
    let mut c = GenCfg::base();
    c.hazards = 120;
    c.allow_random = 50;
    c.widths = 2;
    c.big_values = true;
    c.value_mode = *r.pick(&[0, 1, 1, 2]);
    c.mixed_rates = (30, 30, 200);
    c.w_while = 12;
    c.reads = 200;
    c.w_in = [40, 45, 5, 4, 6];
    c.n_bidir = (0, 2);
    c.n_declares = (0, 1);
    c.w_reset = 2;
    c
}

/// A loop body that ends by setting its own counter to a value at or beyond the bound (incl.
/// i64::MAX): which rows follow is not defined by C01, but C10 still applies - no panic, and the
/// loop must come to an end. Run for the no-panic oracle only.
pub fn counter_rebind_variant(case: &mut Case, r: &mut Prng) -> bool {
    fn first_loop(items: &mut [Item]) -> Option<(&mut String, &mut Vec<Item>)> {
        for it in items.iter_mut() {
            match it {
                Item::Loop(v, _, inner) => return Some((v, inner)),
                Item::While(_, inner) => {
                    if let Some(x) = first_loop(inner) {
                        return Some(x);
                    }
                }
                _ => {}
            }
        }
        None
    }
    let Some((v, inner)) = first_loop(&mut case.program.items) else { return false };
    // (never a small value: below a bound it would make the loop endless - the program's own
    // doing - and the run would only burn its CPU budget)
    let val = *r.pick(&[i64::MAX, i64::MAX, i64::MAX - 1, 1 << 40]);
    inner.push(Item::Let(v.clone(), Expr::Num(val, Radix::Dec)));
    true
}

pub fn c10(case_seed: u64, acc: &mut Acc) {
    let mut r = Prng::new(case_seed);
    let cfg = profile_hazard(&mut r);
    let mut case = gen::generate(&mut r, &cfg);
    if r.chance(25, 1000) && !case.program.uses_random() && counter_rebind_variant(&mut case, &mut r) {
        acc.cases += 1;
        if !preflight_ok(&case, acc) {
            return;
        }
        let pr = pp::print(&case.program, &case.layout_opts);
        let real = run_text(&pr.text, &case.signals, &case.script, &RunOpts { max_steps: REAL_STEP_CAP, probe_after_end: 0, stop_at_error: true, seed: Some(case.rng_seed), continue_on: None });
        count_events(acc, &real);
        acc.tag("loop_counter_rebound_at_or_beyond_its_bound");
        if let Some(f) = first_some(vec![no_panic(&real), accepted(&real), vars_within_textual_scope(&case.program, &pr, &real, acc)]) {
            acc.violation(case_seed, "counter-rebind", f, case_json(&case, &pr));
            return;
        }
        acc.held += 1;
        let h = case_hash(&case, &pr);
        acc.distinct.insert(h);
        acc.nontrivial.insert(h);
        return;
    }
    if r.chance(250, 1000) {
        let n = 1 + r.below(12);
        case.script.faults.push((r.below(n), Fault::Error(r.next_u64() >> 1)));
    }
    if r.chance(15, 1000) {
        // very wide tests (129-300 columns; inputs, outputs and X / C / Z entries in the highest
        // columns): column numbers beyond what fits a u64 or u128 used as a bit set
        let n = *r.pick(&[129usize, 130, 131, 160, 200, 257, 300]);
        let mut sigs: Vec<Sig> = vec![];
        for i in 0..n {
            let high = i + 4 >= n;
            if (high && r.chance(1, 2)) || (!high && r.chance(2, 3)) {
                sigs.push(Sig { name: format!("I{i}"), bits: 1 + r.below(3), kind: SigKind::In(InVal::V(0)) });
            } else {
                sigs.push(Sig { name: format!("O{i}"), bits: 1 + r.below(8), kind: SigKind::Out });
            }
        }
        let header: Vec<String> = sigs.iter().map(|s| s.name.clone()).collect();
        let mut items = vec![];
        for id in 1..=3usize {
            let (mut nx, mut nc) = (0, 0);
            let es: Vec<Entry> = sigs
                .iter()
                .enumerate()
                .map(|(i, s)| {
                    let high = i >= 128;
                    if s.is_input() {
                        match r.below(if high { 8 } else { 60 }) {
                            0 if nx < 3 => {
                                nx += 1;
                                Entry::X(false)
                            }
                            1 if nc < 2 => {
                                nc += 1;
                                Entry::C(false)
                            }
                            2 => Entry::Z(false),
                            _ => Entry::Lit(r.range(0, 1), Radix::Dec),
                        }
                    } else {
                        match r.below(4) {
                            0 => Entry::X(false),
                            1 => Entry::Z(false),
                            _ => Entry::Lit(r.range(0, 9), Radix::Dec),
                        }
                    }
                })
                .collect();
            items.push(Item::Row(id, es));
        }
        let outs: Vec<usize> = (0..sigs.len()).filter(|&i| sigs[i].is_output()).collect();
        case = Case {
            program: Program { header, items },
            signals: sigs,
            script: Script { layout: outs.into_iter().filter(|_| r.chance(1, 2)).collect(), values: ValueFn::Small { salt: 9, modulus: 4 }, faults: vec![], override_write: r.chance(1, 2), rebuild_signals: false },
            layout_opts: crate::pp::Layout::plain(),
            rng_seed: 1,
        };
        acc.tag("very_wide_test_129_to_300_columns");
    }
    c10_case(&case, case_seed, "gen", acc);
}

fn c10_case(case: &Case, case_seed: u64, variant: &str, acc: &mut Acc) {
    acc.cases += 1;
    let Some(ran) = standard_run(case, acc, None) else { return };
    let h = case_hash(case, &ran.pr);
    acc.distinct.insert(h);
    let mut f = first_some(vec![
        no_panic(&ran.real),
        accepted(&ran.real),
        draw_accounting(&ran),
        diff_items(&ran.pr, &ran.rf, &ran.real, Aspects::rows()),
    ]);
    // static iteration of programs that read no outputs must not panic either
    let reads = crate::scope::test_output_reads(&case.program, &case.signals);
    if f.is_none() && reads.is_empty() {
        let (ps, parsed) = parse(&ran.pr.text);
        if let (Stage::Ok, Some(p)) = (ps, parsed) {
            if let (Stage::Ok, Some(tc)) = bind(p, &case.signals) {
                digital_test_runner::verif_hooks::set_seed_override(Some(case.rng_seed));
                let res = guarded(|| match tc.try_iter_static() {
                    Ok(it) => {
                        let mut n = 0usize;
                        for item in it.take(REAL_STEP_CAP) {
                            n += 1;
                            if item.is_err() {
                                break;
                            }
                        }
                        Ok(n)
                    }
                    Err(e) => Err(e.to_string()),
                });
                digital_test_runner::verif_hooks::set_seed_override(None);
                let _ = digital_test_runner::verif_hooks::take_draw_log();
                acc.evaluations += 1;
                match res {
                    Err(p) => f = Some(Finding::new(p.signature(), format!("try_iter_static / static next() panicked: {p:?}"))),
                    Ok(Err(e)) => f = Some(Finding::new("static-refused", format!("program reads no outputs but try_iter_static failed: {e}"))),
                    Ok(Ok(n)) => acc.event("static_items", n as u64),
                }
            }
        }
    }
    if let Some(f) = f {
        acc.violation(case_seed, variant, f, case_json(case, &ran.pr));
        return;
    }
    acc.held += 1;
    let st = &ran.rf.stats;
    let mut hz = false;
    for i in &ran.rf.items {
        if let RefItem::Err(e) = i {
            let k = match e {
                RefErr::DivZero => "hazard_division_by_zero",
                RefErr::Unassigned(_) => "hazard_unassigned_variable",
                RefErr::RandomEmpty(_) => "hazard_empty_random_range",
                RefErr::NotImplemented(_) => "hazard_unimplemented_function",
                RefErr::ReadZX(_) => "read_of_Z_or_X",
                RefErr::VirtualZX(_) => "virtual_read_of_Z_or_X",
                RefErr::Driver { .. } => "driver_error_item",
                RefErr::LayoutDeviation => "layout_deviation",
                RefErr::MissingOutputs(_) => "missing_outputs",
            };
            acc.tag(k);
            hz = true;
        }
    }
    acc.tag_n("wide_signal_63_or_64", (st.wide_signals > 0) as u64);
    acc.tag_n("uses_random", case.program.uses_random() as u64);
    acc.tag_n("division_ops_evaluated", st.div_ops as u64);
    if hz || st.wide_signals > 0 {
        acc.nontrivial.insert(h);
        acc.sample(|| sample_json(case, &ran));
    }
}

pub fn c10_exhaustive(acc: &mut Acc) -> Value {
    // fixed hostile programs: bits(64,e), bits(0,e), widths 63/64 everywhere
    let mut n = 0;
    let sigs64: Vec<Sig> = (0..64)
        .map(|i| Sig { name: format!("b{i}"), bits: if i % 2 == 0 { 1 } else { 3 }, kind: SigKind::In(InVal::V(0)) })
        .chain(std::iter::once(Sig { name: "Q".into(), bits: 64, kind: SigKind::Out }))
        .collect();
    let header: Vec<String> = (0..64).map(|i| format!("b{i}")).chain(std::iter::once("Q".to_string())).collect();
    let neg = |v: i64| Expr::Un(UnOp::Neg, Box::new(Expr::Num(v, Radix::Dec)));
    let exprs = vec![
        Expr::Num(0, Radix::Dec),
        Expr::Num(i64::MAX, Radix::Hex(false, true)),
        neg(1),
        Expr::Bin(BinOp::Sub, Box::new(neg(i64::MAX)), Box::new(Expr::Num(1, Radix::Dec))),
        Expr::Ident("Q".into()),
        Expr::Bin(BinOp::Shl, Box::new(Expr::Num(1, Radix::Dec)), Box::new(Expr::Num(63, Radix::Dec))),
    ];
    for (k, e) in exprs.iter().enumerate() {
        let items = vec![
            Item::Row(1, vec![Entry::Bits(64, e.clone()), Entry::Paren(e.clone())]),
            Item::Row(2, vec![Entry::Bits(0, e.clone()), Entry::Bits(64, e.clone()), Entry::Bits(0, e.clone()), Entry::X(false)]),
        ];
        let case = Case {
            program: Program { header: header.clone(), items },
            signals: sigs64.clone(),
            script: Script { layout: vec![64], values: ValueFn::Unique { salt: k as u64, narrow: false }, faults: vec![], override_write: false, rebuild_signals: false },
            layout_opts: crate::pp::Layout::plain(),
            rng_seed: 3,
        };
        c10_case(&case, k as u64, "exhaustive", acc);
        n += 1;
    }
    json!({"fixed_bits64_programs": n})
}

// ----------------------------------------------------------------------------------- C17

pub const META_C17: Meta = Meta {
    id: "C17",
    level: "exploration",
    rule: "Cases from profile `random`: random() in row entries, let, loop/repeat bounds, while conditions, ite conditions and both arms, nested random(random(k)+2); bounds from {2,3,10,2^31,2^32+1,2^62, variable/device derived >= 2}; resetRandom at top level, inside loops, twice in a row, before any draw; seeds 0, 1, u64::MAX, 2^32-multiples and PRNG values pinned through the verif-hooks seed override. The hook logs every generator call made by random(n) (bound, value), every resetRandom and every context creation. Oracle: (a) each logged draw with bound >= 2 has 0 <= value < bound; (b) accounting by replay - the reference interpreter runs the same program with random(e) defined as `pop the next log entry, its bound must equal my value of e`, the log must be consumed exactly (no draw missing, none left over, none for an unselected ite arm, bounds of loops drawn once), and the rows, device vectors and vars() it then prescribes must equal the observed ones (as if the drawn values were literals); (c) Reset markers coincide with executed resetRandom statements and any two segments (start of run / after a reset) agree in value on the longest common prefix of their bound sequences; (d) a second run with the same seed produces the identical log, and the context seed logged equals the pinned one; (d') a program that reads no outputs and runs without error items produces the identical draw log when iterated through try_iter_static; (e) declare expressions may draw too, and a share of the cases is run again with the driver answering one checked row in another order - the row is an error item and the draw log must still be consumed exactly by the evaluations the program prescribes. 0.1% of the cases are long runs: a loop of 2^16 / 2^17 +-2 draws between the seeding and a resetRandom; the first draw after the reset must repeat the first draw of the run and the log must hold every draw. Expressions e OP e with random inside e (also under ite) occur in 3% of the inner nodes. Non-trivial = >= 3 draws and (a resetRandom followed by >= 2 draws, or a draw inside a loop bound / while condition / ite).",
    assumptions: &[
        "hook LoggedContext forwards the crate's own range expression and generator call unchanged (it only observes)",
        "`one draw` is read as one generator call (gen_range) per evaluation of random(n)",
    ],
    quick_cases: 100000,
    thorough_cases: 2000000,
    floor: 2500,
};

pub fn profile_random() -> GenCfg {
    let mut c = GenCfg::base();
    c.allow_random = 260;
    c.w_reset = 9;
    c.ite = 130;
    c.widths = 3;
    c.n_declares = (0, 2);
    c.max_depth = 3;
    c.w_in = [35, 55, 3, 3, 4];
    c.w_exp = [25, 55, 15, 5];
    c.nonpos_bounds = 80;
    c
}

fn segments(log: &[DrawRec]) -> Vec<Vec<(i64, i64)>> {
    let mut segs = vec![vec![]];
    for d in log {
        match d {
            DrawRec::Reset => segs.push(vec![]),
            DrawRec::Draw { bound, value } => segs.last_mut().unwrap().push((*bound, *value)),
            DrawRec::NewContext(_) => {}
        }
    }
    segs
}

/// About 2^16 (2^17) draws between the seeding and a `resetRandom;`: a draw counter kept in 16 bits
/// comes round to zero (after seeded change V-C17-agent19-7). The first draw after the reset must
/// repeat the first draw of the run (same bound).
fn c17_many_draws(case_seed: u64, r: &mut Prng, acc: &mut Acc) {
    let mult = 1 + r.below(2);
    let d = r.below(5) as i64 - 2;
    let n = ((mult as i64) * 65536 + d - 1) as usize;
    let bound = *r.pick(&[2i64, 7, 1000, 1 << 40]);
    let text = format!("A\n(random(1000))\nloop(i,{n})\nlet t = random({bound});\nend loop\nresetRandom;\n(random(1000))\n(random(1000))\nresetRandom;\n(random(1000))\n");
    let sigs = vec![Sig { name: "A".into(), bits: 16, kind: SigKind::In(InVal::V(0)) }];
    let script = Script { layout: vec![], values: ValueFn::Small { salt: 1, modulus: 200 }, faults: vec![], override_write: false, rebuild_signals: false };
    let seed = r.next_u64();
    let real = run_text(&text, &sigs, &script, &RunOpts { max_steps: 10, probe_after_end: 1, stop_at_error: true, seed: Some(seed), continue_on: None });
    acc.evaluations += 1;
    let log: Vec<DrawRec> = real.steps.iter().flat_map(|s| s.draws.iter().copied()).collect();
    acc.event("draws_logged", log.iter().filter(|d| matches!(d, DrawRec::Draw { .. })).count() as u64);
    let mut f = first_some(vec![no_panic(&real), accepted(&real)]);
    if f.is_none() {
        let rows: Vec<i64> = real.steps.iter().filter_map(|st| if let RealItem::Row(row) = &st.item { row.inputs.first().and_then(|i| if let InVal::V(v) = i.1 { Some(v) } else { None }) } else { None }).collect();
        let n_draws = log.iter().filter(|d| matches!(d, DrawRec::Draw { .. })).count();
        let n_resets = log.iter().filter(|d| matches!(d, DrawRec::Reset)).count();
        if rows.len() != 4 {
            f = Some(Finding::new("many-draws-rows", format!("{} rows instead of 4", rows.len())));
        } else if n_draws != n + 4 || n_resets != 2 {
            f = Some(Finding::new("draw-accounting", format!("{n_draws} draws and {n_resets} resets logged; the program makes {} and 2", n + 4)));
        } else if rows[1] != rows[0] || rows[3] != rows[0] {
            f = Some(Finding::new("reset-does-not-replay", format!("first draw of the run {}, first draw after the reset that follows {} draws: {}, after the second reset: {}", rows[0], n + 1, rows[1], rows[3])));
        }
    }
    match f {
        Some(f) => acc.violation(case_seed, "many-draws", f, json!({"text": text, "seed": seed})),
        None => {
            acc.held += 1;
            acc.tag("reset_after_about_2^16_draws");
        }
    }
}

pub fn c17(case_seed: u64, acc: &mut Acc) {
    let mut r = Prng::new(case_seed);
    if !cfg!(miri) && r.chance(10, 10000) {
        acc.cases += 1;
        return c17_many_draws(case_seed, &mut r, acc);
    }
    let cfg = profile_random();
    let mut case = gen::generate(&mut r, &cfg);
    case.rng_seed = match r.below(8) {
        0 => 0,
        1 => 1,
        2 => u64::MAX,
        3 => (r.next_u64() >> 32) << 32,
        4 => r.next_u64() | (1 << 63),
        _ => r.next_u64(),
    };
    if !case.program.uses_random() {
        // make sure there is at least one draw
        let b = Expr::Num(r.range(2, 50), Radix::Dec);
        case.program.items.insert(0, Item::Let("rv".into(), Expr::Random(Box::new(b))));
    }
    acc.cases += 1;
    let Some(ran) = standard_run(&case, acc, None) else { return };
    let h = case_hash(&case, &ran.pr);
    acc.distinct.insert(h);
    let log: Vec<DrawRec> = ran.real.steps.iter().flat_map(|s| s.draws.iter().copied()).collect();
    let mut f = first_some(vec![no_panic(&ran.real), accepted(&ran.real)]);
    // hook sanity: the context was created with the pinned seed
    if f.is_none() && !matches!(ran.real.construct, Construct::NotReached) {
        if ran.real.construct_draws != vec![DrawRec::NewContext(case.rng_seed)] {
            f = Some(Finding::new("context-seed", format!("constructor log {:?}, pinned seed {}", ran.real.construct_draws, case.rng_seed)));
        }
    }
    // (a) range
    if f.is_none() {
        for d in &log {
            if let DrawRec::Draw { bound, value } = d {
                if *bound >= 2 && !(0 <= *value && *value < *bound) {
                    f = Some(Finding::new("draw-out-of-range", format!("random({bound}) drew {value}")));
                    break;
                }
            }
        }
    }
    // (b) accounting + as-if-literals
    if f.is_none() {
        f = first_some(vec![draw_accounting(&ran), diff_items(&ran.pr, &ran.rf, &ran.real, Aspects::all()), protocol(&ran.rf, &ran.real)]);
    }
    // (c) resets replay
    let segs = segments(&log);
    if f.is_none() {
        'o: for i in 0..segs.len() {
            for j in (i + 1)..segs.len() {
                for (a, b) in segs[i].iter().zip(&segs[j]) {
                    if a.0 != b.0 {
                        break;
                    }
                    if a.1 != b.1 {
                        f = Some(Finding::new(
                            "reset-does-not-replay",
                            format!("segments {i} and {j} share the bound prefix up to random({}) but drew {} vs {}", a.0, a.1, b.1),
                        ));
                        break 'o;
                    }
                }
            }
        }
    }
    // (d) determinism for a pinned seed
    if f.is_none() {
        let real2 = run_text(&ran.pr.text, &case.signals, &case.script, &RunOpts { max_steps: REAL_STEP_CAP, probe_after_end: 2, stop_at_error: true, seed: Some(case.rng_seed), continue_on: None });
        acc.evaluations += 1;
        let log2: Vec<DrawRec> = real2.steps.iter().flat_map(|s| s.draws.iter().copied()).collect();
        if log2 != log {
            f = Some(Finding::new("same-seed-different-draws", format!("first run {:?}\nsecond run {:?}", &log[..log.len().min(12)], &log2[..log2.len().min(12)])));
        }
    }
    // (d') a program that reads no outputs draws the same values, for the same bounds, in the same
    // order when it is iterated statically (virtual signals that draw included)
    if f.is_none() && !ran.real.steps.iter().any(|s| matches!(s.item, RealItem::ErrRuntime(_) | RealItem::ErrDriver { .. } | RealItem::Panic(_))) && crate::scope::test_output_reads(&case.program, &case.signals).is_empty() {
        if let (_, Some(parsed)) = parse(&ran.pr.text) {
            if let (_, Some(tc)) = bind(parsed, &case.signals) {
                digital_test_runner::verif_hooks::set_seed_override(Some(case.rng_seed));
                let _ = digital_test_runner::verif_hooks::take_draw_log();
                let res = guarded(|| tc.try_iter_static().map(|it| it.take(REAL_STEP_CAP).filter(|i| i.is_ok()).count()).map_err(|e| e.to_string()));
                digital_test_runner::verif_hooks::set_seed_override(None);
                let slog: Vec<DrawRec> = conv_draws(digital_test_runner::verif_hooks::take_draw_log()).into_iter().filter(|d| !matches!(d, DrawRec::NewContext(_))).collect();
                acc.evaluations += 1;
                match res {
                    Err(p) => f = Some(Finding::new(p.signature(), format!("static iteration panicked: {p:?}"))),
                    Ok(Err(_)) => {}
                    Ok(Ok(_)) => {
                        let dlog: Vec<DrawRec> = log.iter().copied().filter(|d| !matches!(d, DrawRec::NewContext(_))).collect();
                        if slog != dlog {
                            let k = (0..slog.len().min(dlog.len())).find(|&k| slog[k] != dlog[k]).unwrap_or(slog.len().min(dlog.len()));
                            f = Some(Finding::new(
                                "static-run-draws-differ",
                                format!("draw log of try_iter_static has {} events, of the dynamic run {}; first difference at #{k}: {:?} vs {:?}", slog.len(), dlog.len(), slog.get(k), dlog.get(k)),
                            ));
                        } else {
                            acc.event("static_draw_logs_compared", 1);
                        }
                    }
                }
            }
        }
    }
    if let Some(f) = f {
        acc.violation(case_seed, "gen", f, case_json(&case, &ran.pr));
        return;
    }
    acc.held += 1;
    let n_draws = log.iter().filter(|d| matches!(d, DrawRec::Draw { .. })).count();
    let reset_then_2 = segs.iter().skip(1).any(|s| s.len() >= 2);
    let st = &ran.rf.stats;
    acc.event("draws_checked", n_draws as u64);
    acc.tag_n("resets_executed", st.resets as u64);
    acc.tag_n("reset_followed_by_ge2_draws", reset_then_2 as u64);
    acc.tag_n("draws_in_bound_or_condition", st.draws_in_control as u64);
    acc.tag_n("ite_with_random_in_unselected_arm", st.ite_skipped_random as u64);
    acc.tag_n("big_bound_ge_2^31", log.iter().any(|d| matches!(d, DrawRec::Draw { bound, .. } if *bound >= 1 << 31)) as u64);
    for d in &log {
        if let DrawRec::Draw { bound, value } = d {
            if *bound <= 8 && *bound >= 2 {
                acc.tag(&format!("value_seen:random({bound})={value}"));
            }
        }
    }
    let virtual_draws = case.program.declares().iter().any(|(_, e)| e.contains(&|x| matches!(x, Expr::Random(_))));
    acc.tag_n("virtual_signal_draws", virtual_draws as u64);
    // The same run with the driver answering ONE checked row in another order (same signals):
    // that row is an error item, and nothing of it may have been evaluated behind the caller's
    // back - every logged draw still belongs to an evaluation the program prescribes. (Signal
    // lists that carry a virtual signal of their own are left out: where such a signal sits
    // before the displaced output it is legitimately evaluated first.)
    let checked: Vec<usize> = ran.real.calls.iter().enumerate().skip(1).filter(|(_, c)| c.reads && c.answer.is_some()).map(|(i, _)| i).collect();
    if case.script.layout.len() >= 2
        && case.script.faults.is_empty()
        && !checked.is_empty()
        && !case.signals.iter().any(|s| matches!(s.kind, SigKind::Virtual(_)))
        && r.chance(if virtual_draws { 600 } else { 100 }, 1000)
    {
        let mut c2 = case.clone();
        let at = *r.pick(&checked);
        let a = r.below(c2.script.layout.len());
        let b = (a + 1 + r.below(c2.script.layout.len() - 1)) % c2.script.layout.len();
        c2.script.faults.push((at, Fault::Swap(a, b)));
        if let Some(ran2) = standard_run(&c2, acc, None) {
            acc.tag("reordered_answer_injected");
            if let Some(f) = first_some(vec![
                no_panic(&ran2.real),
                accepted(&ran2.real),
                draw_accounting(&ran2),
                diff_items(&ran2.pr, &ran2.rf, &ran2.real, Aspects::all()),
            ]) {
                acc.violation(case_seed, "reordered-answer", f, case_json(&c2, &ran2.pr));
                return;
            }
        }
    }
    if n_draws >= 3 && (reset_then_2 || st.draws_in_control > 0 || st.ite_skipped_random > 0) {
        acc.nontrivial.insert(h);
        acc.sample(|| {
            let mut v = sample_json(&case, &ran);
            v["draw_log_head"] = json!(log.iter().take(10).collect::<Vec<_>>());
            v
        });
    }
}
