//! C13 — driver failures and contract violations surface as errors, never as wrong rows.
//! Per case, *every* call index x error and every checked call x every deviation kind.

use super::*;
use crate::gen;
use crate::prng::Prng;

pub const META_C13: Meta = Meta {
    id: "C13",
    level: "fault_enumeration",
    rule: "Cases are sampled from profiles `attrib`+`expand` (layouts of 0-7 outputs, C/X rows, loops); for each case the fault-free run is recorded first, then faults are ENUMERATED, not sampled: (F) for every call index c of the fault-free call log (constructor, checked and write-only calls alike) the driver returns Err(nonce_c) at c: c=0 must make try_iter return that very error, otherwise every item before the row owning call c must be identical to the fault-free run and that row must be the driver-error item carrying (nonce_c, c); (D) for every output-reading call c >= 1 of a checked row and every deviation kind {drop an entry, add an unknown signal, add an input signal, duplicate an entry, swap two entries, substitute another signal at a position, substitute a look-alike of the slot's own signal - same name, another type / width / default}: items before are identical, that row must be a runtime-error item, and in every row returned anywhere each reported output must equal what the device reported for that same signal in that call (or X if unsupplied); (C) one pure re-ordering per case is run to the END with the caller continuing past the error item, and everything after it must be what the reference prescribes (the values read by later expressions are those the device reported for those signals). evaluations = number of faulted executions. Non-trivial = fault-free run has >= 3 calls including a write-only one and the layout has >= 2 outputs (distinct by case text+signals+script).",
    assumptions: &["device answers are a pure function of (call index, signal), so the prefix before a fault is comparable item by item", "deviations at forwarded mid-clock calls are invisible by construction of the default write_input and are not enumerated"],
    quick_cases: 12000,
    thorough_cases: 200000,
    floor: 500,
};

fn items_equal_prefix(a: &[RealStep], b: &[RealStep], k: usize) -> Option<usize> {
    for i in 0..k {
        match (a.get(i), b.get(i)) {
            (Some(x), Some(y)) if x.item == y.item => {}
            _ => return Some(i),
        }
    }
    None
}

pub fn c13(case_seed: u64, acc: &mut Acc) {
    let mut r = Prng::new(case_seed);
    let cfg = if r.chance(1, 2) {
        let mut c = super::dynamic::profile_attrib(&mut r);
        c.w_in = [45, 25, 6, 4, 20];
        c
    } else {
        let mut c = super::dynamic::profile_expand();
        c.n_out = (1, 4);
        c.n_bidir = (0, 2);
        c
    };
    let mut cfg = cfg;
    cfg.block_items = (1, 3);
    cfg.max_depth = 2;
    cfg.max_bound = 2;
    let case = gen::generate(&mut r, &cfg);
    acc.cases += 1;
    if !preflight_ok(&case, acc) {
        return;
    }
    let pr = pp::print(&case.program, &case.layout_opts);
    let opts = RunOpts { max_steps: 80, probe_after_end: 0, stop_at_error: true, seed: Some(1), continue_on: None };
    let base = run_text(&pr.text, &case.signals, &case.script, &opts);
    count_events(acc, &base);
    if let Some(f) = first_some(vec![accepted(&base), no_panic(&base)]) {
        acc.violation(case_seed, "fault-free", f, case_json(&case, &pr));
        return;
    }
    if base.steps.len() >= 80 || !matches!(base.construct, Construct::Ok) {
        acc.inconclusive("fault-free run too long or constructor refused (missing outputs)");
        return;
    }
    if !matches!(base.steps.last().map(|s| &s.item), Some(RealItem::End)) {
        // fault-free run ends in a runtime error (Z/X read): enumerate faults before it only
        acc.tag("fault_free_run_ends_in_runtime_error");
    }
    let h = case_hash(&case, &pr);
    acc.distinct.insert(h);
    let n_calls = base.calls.len();
    // owner step of each call
    let owner = |c: usize| base.steps.iter().position(|s| s.calls.0 <= c && c < s.calls.1);
    let mut violated = false;
    // (F) driver errors at every call index
    for c in 0..n_calls {
        let nonce = crate::prng::mix(&[case_seed, c as u64]) >> 1;
        let mut sc = case.script.clone();
        sc.faults = vec![(c, Fault::Error(nonce))];
        let run = run_text(&pr.text, &case.signals, &sc, &opts);
        acc.evaluations += 1;
        acc.event("driver_error_faults", 1);
        let f = if let Some(p) = no_panic(&run) {
            Some(p)
        } else if c == 0 {
            match &run.construct {
                Construct::ErrDriver { nonce: n, call: 0 } if *n == nonce => None,
                other => Some(Finding::new("ctor-error-not-propagated", format!("driver failed the initial call with nonce {nonce}; try_iter returned {other:?}"))),
            }
        } else {
            let k = owner(c).unwrap();
            if let Some(i) = items_equal_prefix(&base.steps, &run.steps, k) {
                Some(Finding::new("prefix-differs", format!("error at call {c}: item {i} differs from the fault-free run: {:?} vs {:?}", run.steps.get(i).map(|s| &s.item), base.steps[i].item)))
            } else {
                match run.steps.get(k).map(|s| &s.item) {
                    Some(RealItem::ErrDriver { nonce: n, call }) if *n == nonce && *call == c => {
                        if base.calls[c].reads {
                            acc.event("errors_at_output_reading_calls", 1)
                        } else {
                            acc.event("errors_at_write_only_calls", 1)
                        }
                        None
                    }
                    other => Some(Finding::new("driver-error-lost", format!("driver failed call {c} (owned by item {k}) with nonce {nonce}; item {k} is {other:?}"))),
                }
            }
        };
        if let Some(f) = f {
            acc.violation(case_seed, &format!("error@{c}"), f, json!({"case": case_json(&case, &pr), "fault": format!("Err at call {c}")}));
            violated = true;
            break;
        }
    }
    // (D) deviations at every checked call
    let lay = case.script.layout.clone();
    let other_sig = |pos: usize| (0..case.signals.len()).find(|i| lay.get(pos) != Some(i) && !lay.contains(i)).or_else(|| (0..case.signals.len()).find(|i| lay.get(pos) != Some(i)));
    let in_sig = (0..case.signals.len()).find(|&i| matches!(case.signals[i].kind, SigKind::In(_)));
    if !violated {
        'outer: for c in 1..n_calls {
            let Some(k) = owner(c) else { continue };
            let RealItem::Row(row) = &base.steps[k].item else { continue };
            if !base.calls[c].reads || row.outputs.is_empty() && lay.is_empty() && false {
                continue;
            }
            if !base.calls[c].reads {
                continue;
            }
            let mut devs: Vec<Fault> = vec![Fault::AddUnknown];
            if let Some(i) = in_sig {
                devs.push(Fault::AddInput(i));
            }
            for p in 0..lay.len() {
                devs.push(Fault::Drop(p));
                devs.push(Fault::Duplicate(p));
                if let Some(o) = other_sig(p) {
                    devs.push(Fault::Substitute(p, o));
                }
                // a look-alike in the slot: the name of the signal the first answer had there, but
                // another type, width or default - not the signal of the first answer
                devs.push(Fault::SubstituteTwin(p, ((case_seed as usize + c + p) % 3) as u8));
                for q in (p + 1)..lay.len() {
                    devs.push(Fault::Swap(p, q));
                }
            }
            for d in devs {
                let mut sc = case.script.clone();
                sc.faults = vec![(c, d.clone())];
                let run = run_text(&pr.text, &case.signals, &sc, &opts);
                acc.evaluations += 1;
                acc.event("layout_deviation_faults", 1);
                let f = if let Some(p) = no_panic(&run) {
                    Some(p)
                } else if let Some(i) = items_equal_prefix(&base.steps, &run.steps, k) {
                    Some(Finding::new("prefix-differs", format!("{d:?} at call {c}: item {i} differs from the fault-free run")))
                } else {
                    match run.steps.get(k).map(|s| &s.item) {
                        Some(RealItem::ErrRuntime(_)) => attribution(&case.signals, &run),
                        other => Some(Finding::new(
                            "deviation-accepted",
                            format!("device deviated from its first layout ({d:?}) at call {c} of checked row {k}; item is {}", match other { Some(RealItem::Row(r)) => format!("a row with outputs {:?}", r.outputs), o => format!("{o:?}") }),
                        )),
                    }
                };
                if let Some(f) = f {
                    acc.violation(case_seed, &format!("{d:?}@{c}"), f, json!({"case": case_json(&case, &pr), "fault": format!("{d:?} at call {c}")}));
                    violated = true;
                    break 'outer;
                }
            }
        }
    }
    if violated {
        return;
    }
    // (C) the caller goes on after the error item. For a pure re-ordering of the answer (every
    // signal still has a value) what follows is prescribed (2.10): one such deviation per case is
    // run to the end and compared with the reference - a value attributed to the wrong signal
    // behind the error item would show in the rows computed from it afterwards.
    if lay.len() >= 2 && !case.program.uses_random() {
        let checked: Vec<usize> = (1..n_calls).filter(|&c| base.calls[c].reads && owner(c).is_some()).collect();
        if !checked.is_empty() {
            let mut r2 = Prng::new(case_seed ^ 0xC0117);
            let c = *r2.pick(&checked);
            let a = r2.below(lay.len());
            let b = (a + 1 + r2.below(lay.len() - 1)) % lay.len();
            let mut c2 = case.clone();
            let ins: Vec<usize> = (0..case.signals.len()).filter(|&i| matches!(case.signals[i].kind, SigKind::In(_))).collect();
            let dev = match r2.below(5) {
                0 => Fault::AddUnknown,
                1 if !ins.is_empty() => Fault::AddInput(*r2.pick(&ins)),
                2 => Fault::Duplicate(a),
                _ => Fault::Swap(a, b),
            };
            c2.script.faults = vec![(c, dev.clone())];
            if let Some(ran) = standard_run(&c2, acc, None) {
                acc.event("continued_past_a_reordered_answer", 1);
                if let Some(f) = first_some(vec![no_panic(&ran.real), diff_items(&ran.pr, &ran.rf, &ran.real, Aspects::rows()), attribution(&c2.signals, &ran.real)]) {
                    acc.violation(case_seed, &format!("continue-after-{dev:?}@{c}"), f, json!({"case": case_json(&c2, &ran.pr), "fault": format!("{dev:?} at call {c}, iteration continued")}));
                    return;
                }
            }
        }
    }
    acc.held += 1;
    acc.tag_n("layout_len_0", lay.is_empty() as u64);
    acc.tag_n("layout_len_1", (lay.len() == 1) as u64);
    acc.tag_n("layout_len_ge2", (lay.len() >= 2) as u64);
    let has_wo = base.calls.iter().any(|c| !c.reads);
    acc.tag_n("has_write_only_calls", has_wo as u64);
    if n_calls >= 3 && has_wo && lay.len() >= 2 {
        acc.nontrivial.insert(h);
        acc.sample(|| json!({"text": pr.text, "layout": lay, "fault_free_calls": n_calls, "faults_enumerated": "Err at each call; each deviation kind at each checked call"}));
    }
}
