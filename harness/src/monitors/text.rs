//! Text-level monitors: C09 (parsing is total), C12 (malformed programs are rejected),
//! C20 (layout is irrelevant).

use super::*;
use crate::gen::{self, GenCfg};
use crate::prng::Prng;
use crate::reflex::{self, K};
use crate::refparse;
use digital_test_runner::ParsedTestCase;
use std::str::FromStr;

fn corpus_case(r: &mut Prng) -> Case {
    let cfg: GenCfg = match r.below(4) {
        0 => super::c01::profile(),
        1 => super::dynamic::profile_expand(),
        2 => {
            let mut c = super::c01::profile();
            c.expr_depth = 5;
            c.ite = 150;
            c.w_let = 40;
            c
        }
        _ => {
            let mut c = super::hazard::profile_random();
            c.n_declares = (0, 3);
            c
        }
    };
    let mut c = gen::generate(r, &cfg);
    if r.chance(60, 1000) {
        // the same statement text in two scopes (a row read as a counter here and as an output there)
        gen::plant_scope_twins(&mut c, r);
    }
    c
}

// ----------------------------------------------------------------------------------- C09

pub const META_C09: Meta = Meta {
    id: "C09",
    level: "exploration",
    rule: "Each case is a batch of 24 strings from four sources: (1) token soup - 1-60 tokens from the full token alphabet (every keyword incl. program/init/memory/def/call, every operator incl. ! and ~ in infix position, C X Z, radix and overflowing literals, EOL/CRLF/tab/comment, non-ASCII such as é, emoji, U+0085, combining marks, $, NUL) with and without a valid header in front; (2) mutated valid programs - printer output of generated programs under token deletion / duplication / transposition / replacement, truncation at a random char boundary, an extra C appended past the last column, a reserved keyword inserted at a statement start, and (1.5% of the cases) programs with 65-300 header columns whose rows hold C / X / Z / expressions / bits() at arbitrary columns, the last ones included; (3) the same with LF -> CRLF; (4) shard 0: structured edge cases (empty, blank only, header only +- newline, 1 MB line, 10^5 blank lines, 10^4 columns, 300-column rows of C / X / Z, nesting 64 / 65 / 129 / 257 deep in parentheses, unary chains, loop / while blocks and ite calls) and truncation of 40 programs at EVERY char boundary. Oracle per string, under catch_unwind: from_str returns (no panic); on Err every span in ParseError.at satisfies start <= end <= len with both ends on char boundaries; rendering the error with miette's graphical handler and the source attached does not panic and is non-empty. Non-trivial = string has a valid header line (so the body parser is reached) and is not byte-identical to an earlier one.",
    assumptions: &["nesting depth is bounded (<= 64) to stay clear of native stack exhaustion, as the property's quantifier says"],
    quick_cases: 60000,
    thorough_cases: 1200000,
    floor: 100000,
};

const SOUP: [&str; 86] = [
    // identifiers may contain any Unicode decimal digit (the lexer's `\d`), and messages that
    // quote or truncate a lexeme meet multi-byte characters at arbitrary byte offsets
    "a\u{663}\u{663}\u{663}\u{663}\u{663}\u{663}\u{663}\u{663}\u{663}\u{663}\u{663}\u{663}\u{663}\u{663}\u{663}\u{663}",
    "x\u{661}\u{662}",
    "ab\u{7c1}\u{7c2}\u{7c3}\u{7c4}\u{7c5}\u{7c6}\u{7c7}\u{7c8}\u{7c9}\u{7c0}\u{7c1}\u{7c2}\u{7c3}\u{7c4}\u{7c5}\u{7c6}\u{7c7}\u{7c8}\u{7c9}\u{7c0}\u{7c1}\u{7c2}\u{7c3}\u{7c4}\u{7c5}\u{7c6}\u{7c7}\u{7c8}\u{7c9}\u{7c0}\u{7c1}\u{7c2}",
    "a_very_long_identifier_that_is_longer_than_thirty_two_bytes_and_then_some_more_to_pass_sixty_four_bytes",
    "abc\u{1d7ce}\u{1d7cf}\u{1d7d0}\u{1d7d1}\u{1d7d2}\u{1d7d3}\u{1d7d4}\u{1d7d5}\u{1d7d6}\u{1d7d7}",
    "0x00000000000000000000000000000000000000000000000000000000000000001",
    "0b0000000000000000000000000000000000000000000000000000000000000000000000001",
    "000000000000000000000000000000000000000000000000000000000000000000000000007",
    ",", ";", "+", "-", "*", "/", "%", "!", "~", "^", "&", "|", "<<", ">>", "=", "!=", "<=", ">=", "<", ">", "(", ")", "end", "loop", "repeat", "bits", "let",
    "resetRandom", "while", "declare", "program", "init", "memory", "def", "call", "C", "X", "Z", "c", "x", "z", "a", "Q", "n", "random", "ite", "signExt", "looper", "0",
    "1", "7", "08", "0x1F", "0X", "0b101", "0b2", "017", "9223372036854775807", "9223372036854775808", "0xFFFFFFFFFFFFFFFFF", "18446744073709551616", "\n", "\n", "\n",
    "\r\n", "\t", " ", "# comment", "#", "é", "🙂", "\u{85}", "e\u{301}", "$", "\0", "\u{feff}", "`", "\\",
];

fn soup(r: &mut Prng) -> String {
    let mut s = String::new();
    if r.chance(3, 4) {
        s.push_str(*r.pick(&["A B\n", "A\n", "A B Q\r\n", "\n\nCLK D Q\n", "é ☃\n"]));
    }
    let n = 1 + r.below(60);
    for _ in 0..n {
        s.push_str(*r.pick(&SOUP));
        if r.chance(3, 4) {
            s.push(' ');
        }
    }
    s
}

fn mutate_tokens(text: &str, r: &mut Prng) -> String {
    let Some((_, off)) = reflex::header(text) else { return text.to_string() };
    let toks = reflex::lex(text, off);
    if toks.is_empty() {
        return text.to_string();
    }
    let i = r.below(toks.len());
    let t = &toks[i];
    match r.below(8) {
        0 => format!("{}{}", &text[..t.start], &text[t.end..]),
        1 => format!("{}{} {}", &text[..t.end], "", &text[t.start..]),
        2 => {
            let j = r.below(toks.len());
            let (a, b) = if toks[i].start <= toks[j].start { (&toks[i], &toks[j]) } else { (&toks[j], &toks[i]) };
            if a.end > b.start {
                return text.to_string();
            }
            format!("{}{}{}{}{}", &text[..a.start], &text[b.start..b.end], &text[a.end..b.start], &text[a.start..a.end], &text[b.end..])
        }
        3 => format!("{}{}{}", &text[..t.start], r.pick(&SOUP), &text[t.end..]),
        4 => {
            let mut k = r.below(text.len() + 1);
            while !text.is_char_boundary(k) {
                k -= 1;
            }
            text[..k].to_string()
        }
        5 => {
            // append C (and more) past the last column of some row: before an Eol token
            let eols: Vec<&reflex::Tok> = toks.iter().filter(|t| t.k == K::Eol).collect();
            if eols.is_empty() {
                return format!("{text} C");
            }
            let e = r.pick(&eols);
            format!("{} {}{}", &text[..e.start], r.pick(&["C", "C C", "c", "bits(2,1) C", "X C"]), &text[e.start..])
        }
        6 => {
            // reserved keyword at a statement start
            let starts: Vec<usize> = std::iter::once(off).chain(toks.iter().filter(|t| t.k == K::Eol).map(|t| t.end)).collect();
            let s = *r.pick(&starts);
            format!("{}{} {}", &text[..s], r.pick(&["program", "init", "memory", "def", "call", "end", "bits", "declare"]), &text[s..])
        }
        _ => format!("{}{}{}", &text[..t.start], r.pick(&["!", "~", "(", ")", "$", "é"]), &text[t.start..]),
    }
}

/// The C09 oracle on one string. Returns (finding, reached_body)
fn c09_one(text: &str, acc: &mut Acc) -> (Option<Finding>, bool) {
    acc.evaluations += 1;
    let reached = reflex::header(text).is_some();
    let res = guarded(|| ParsedTestCase::from_str(text));
    match res {
        Err(p) => (Some(Finding::new(p.signature(), format!("from_str panicked: {p:?}"))), reached),
        Ok(Ok(_)) => {
            acc.tag("parse_ok");
            (None, reached)
        }
        Ok(Err(e)) => {
            let kind = {
                use std::error::Error;
                e.source().map(|s| s.to_string()).unwrap_or_default()
            };
            let kind_key: String = kind.split(|c: char| c.is_ascii_digit() || c == ':' || c == '.').next().unwrap_or("").trim().chars().take(40).collect();
            acc.tag(&format!("err:{kind_key}"));
            for sp in &e.at {
                let ok = sp.start <= sp.end && sp.end <= text.len() && text.is_char_boundary(sp.start) && text.is_char_boundary(sp.end);
                if !ok {
                    return (
                        Some(Finding::new("span-out-of-source", format!("error {kind:?} carries span {}..{} for a text of {} bytes (char boundaries: {} {})", sp.start, sp.end, text.len(), text.is_char_boundary(sp.start.min(text.len())), text.is_char_boundary(sp.end.min(text.len()))))),
                        reached,
                    );
                }
            }
            acc.event("error_spans_checked", e.at.len() as u64);
            let src = text.to_string();
            let rendered = guarded(move || {
                let rep = miette::Report::new(e).with_source_code(src);
                let mut s = String::new();
                let r = miette::GraphicalReportHandler::new_themed(miette::GraphicalTheme::unicode_nocolor()).render_report(&mut s, rep.as_ref());
                (r.is_ok(), s.len())
            });
            match rendered {
                Err(p) => (Some(Finding::new(format!("render-{}", p.signature()), format!("rendering the error {kind:?} panicked: {p:?}"))), reached),
                Ok((ok, n)) => {
                    if !ok || n == 0 {
                        (Some(Finding::new("render-empty", format!("rendering the error {kind:?} produced {n} bytes (ok={ok})"))), reached)
                    } else {
                        acc.event("errors_rendered", 1);
                        (None, reached)
                    }
                }
            }
        }
    }
}

fn c09_check(text: &str, case_seed: u64, variant: &str, acc: &mut Acc) -> bool {
    let (f, reached) = c09_one(text, acc);
    let h = crate::prng::hash_bytes(text.as_bytes());
    acc.distinct.insert(h);
    if let Some(f) = f {
        acc.violation(case_seed, variant, f, json!({"text": text}));
        return false;
    }
    if reached {
        acc.nontrivial.insert(h);
    }
    true
}

/// A program with a very wide header (65-300 columns) whose rows hold every kind of entry at
/// arbitrary columns - valid or not, it has to come back from `from_str`.
fn wide_program(r: &mut Prng) -> String {
    let n = *r.pick(&[65usize, 66, 70, 127, 128, 129, 130, 200, 257, 300]);
    let mut names: Vec<String> = (0..n).map(|i| format!("s{i}")).collect();
    if r.chance(1, 4) {
        // one very long name (just past 63 / 127 / 255 bytes), ASCII or multi-byte
        let unit = *r.pick(&["a", "é", "数"]);
        let bytes = *r.pick(&[63usize, 64, 65, 128, 129, 256, 257, 1000]);
        let k = r.below(n);
        names[k] = format!("L{}", unit.repeat(bytes.div_ceil(unit.len())));
    }
    if r.chance(1, 3) {
        // a repeated name (adjacent or far apart, at a low or a high position): an error, no panic
        let j = *r.pick(&[0usize, 31, 32, 33, 63, 64, 65, 127, 128, 129, 255, 256]).min(&(n - 2));
        let k = if r.chance(1, 2) { j + 1 } else { j + 1 + r.below(n - j - 1) };
        names[k] = names[j].clone();
    }
    let mut t: String = names.join(" ");
    t.push('\n');
    for _ in 0..1 + r.below(3) {
        let hot = r.below(n);
        let hot2 = n - 1 - r.below(n.min(4));
        let row: Vec<&str> = (0..n)
            .map(|c| {
                if c == hot || c == hot2 || r.chance(30, 1000) {
                    *r.pick(&["C", "X", "Z", "c", "x", "z", "(1+1)", "0x1F", "7"])
                } else {
                    *r.pick(&["0", "1", "0", "1", "X"])
                }
            })
            .collect();
        if r.chance(1, 4) {
            t.push_str("repeat(2) ");
        }
        t.push_str(&row.join(" "));
        t.push('\n');
    }
    if r.chance(1, 4) {
        t.push_str(&format!("bits({}, 5) {}\n", n.min(64), vec!["C"; n - n.min(64)].join(" ")));
    }
    t
}

pub fn c09(case_seed: u64, acc: &mut Acc) {
    let mut r = Prng::new(case_seed);
    acc.cases += 1;
    if r.chance(15, 1000) {
        let s = wide_program(&mut r);
        acc.event("wide_header_programs_65_to_300_columns", 1);
        if !c09_check(&s, case_seed, "wide", acc) {
            return;
        }
    }
    let base = {
        let c = corpus_case(&mut r);
        pp::print(&c.program, &c.layout_opts).text
    };
    let mut all_ok = true;
    for k in 0..24 {
        let (mut s, variant) = if k < 10 {
            (soup(&mut r), "soup")
        } else {
            let mut t = base.clone();
            for _ in 0..(1 + r.below(3)) {
                t = mutate_tokens(&t, &mut r);
            }
            (t, "mutated")
        };
        if r.chance(1, 5) {
            s = s.replace('\n', "\r\n");
        }
        if k == 0 {
            acc.sample(|| json!({"soup": s}));
        } else if k == 10 {
            acc.sample(|| json!({"mutated_program": s}));
        }
        all_ok &= c09_check(&s, case_seed, variant, acc);
    }
    if all_ok {
        acc.held += 1;
    }
}

pub fn c09_exhaustive(tier: &str, acc: &mut Acc) -> Value {
    let mut edge: Vec<String> = vec![
        "".into(),
        " ".into(),
        "\n".into(),
        "\n\n \t\r\n".into(),
        "A B".into(),
        "A B\n".into(),
        "A B\r\n".into(),
        "A A\n".into(),
        "é\n1\n".into(),
        "A\n1".into(),
        "A\nloop(i,2)".into(),
        "A\nloop(i,2)\n".into(),
        "A\nloop(i,2)\n1\nend".into(),
        "A\nloop(i,2)\n1\nend loop".into(),
        "A\nend loop\n".into(),
        "A\nlet".into(),
        "A\nlet a".into(),
        "A\nlet a =".into(),
        "A\nlet a = 1".into(),
        "A\ndeclare".into(),
        "A\ndeclare v = 1;".into(),
        "A\ndeclare v = 1;\ndeclare v = 2;\n".into(),
        "A\nrepeat".into(),
        "A\nrepeat(2)".into(),
        "A\nbits(".into(),
        "A\nbits(65,1)\n".into(),
        "A\nbits(999999999999999999999,1)\n".into(),
        "A\n(ite(1,2))\n".into(),
        "A\n(foo(1))\n".into(),
        "A\n(random())\n".into(),
        "A\n(1 ! 2)\n".into(),
        "A\n(1 ~ 2)\n".into(),
        "A\nprogram\n".into(),
        "A\ninit\n".into(),
        "A\nmemory\n".into(),
        "A\ndef\n".into(),
        "A\ncall\n".into(),
        "A B\n1 1 C\n".into(),
        "A B\n1 1 c\n".into(),
        "A\nbits(1,1) C\n".into(),
        "A\n1 # é\u{301}🙂\n$".into(),
        "\u{feff}A B\n1 1\n".into(),
        "\u{feff}\nA B\n1 1 1\n".into(),
        "A\0B\n1\n".into(),
        "A B\n1 \0 1\n".into(),
        "A B\n\u{1}\u{2}\u{7f}\n".into(),
        "A B\n1 1\u{85}\n".into(),
        "A B\n1\u{2028}1\n".into(),
        "\t \r\n \x0c\nA\x0cB\n1\x0c1\n".into(),
        "A B\nlet é = 1;\n".into(),
        "A B\n(1 +\n 2) 1\n".into(),
        "A B\nbits(2,\n1)\n".into(),
        "A B\nloop(i,\n2)\n1 1\nend loop\n".into(),
        "A B\ndeclare = 1;\n".into(),
        "A B\ndeclare v 1;\n".into(),
        "A B\ndeclare v = ;\n".into(),
        "A B\n(ite(1,2,3,4)) 1\n".into(),
        "A B\n(ite(,,)) 1\n".into(),
        "A B\n(random(1,)) 1\n".into(),
        "A B\n(random 1) 1\n".into(),
        "A B\nbits(,1) 1\n".into(),
        "A B\nbits(2 1)\n".into(),
        "A B\nbits(0x,1) 1\n".into(),
        "A B\nend\n".into(),
        "A B\nend end\n".into(),
        "A B\nloop(i,1)\nend é\n".into(),
        "A B\n99999999999999999999 1\n".into(),
        "A B\n0xFFFFFFFFFFFFFFFFFFFF 1\n".into(),
        "A B\n0b11111111111111111111111111111111111111111111111111111111111111111 1\n".into(),
        "A B\n07777777777777777777777777 1\n".into(),
        format!("A\n{}\n", "1 ".repeat(500_000)),
        format!("A\n{}", "\n".repeat(100_000)),
        format!("{}\n{}\n", (0..10_000).map(|i| format!("s{i}")).collect::<Vec<_>>().join(" "), "1 ".repeat(10_000)),
        format!("A\n({}1{})\n", "(".repeat(64), ")".repeat(64)),
        format!("A\n({}1)\n", "-".repeat(64)),
        format!("{}\n{}\n", (0..300).map(|i| format!("s{i}")).collect::<Vec<_>>().join(" "), vec!["C"; 300].join(" ")),
        format!("{}\n{}\n", (0..300).map(|i| format!("s{i}")).collect::<Vec<_>>().join(" "), vec!["X"; 300].join(" ")),
        format!("{}\n{}\n", (0..300).map(|i| format!("s{i}")).collect::<Vec<_>>().join(" "), vec!["Z"; 300].join(" ")),
        format!("A\n{}1\n{}", "loop(i,1)\n".repeat(64), "end loop\n".repeat(64)),
        format!("A\n{}", "loop(i,1)\n".repeat(64)),
    ];
    // nesting just past 2^6, 2^7, 2^8 (parentheses, unary chains, blocks, function calls)
    for d in [65usize, 129, 257] {
        edge.push(format!("A\n({}1{})\n", "(".repeat(d), ")".repeat(d)));
        edge.push(format!("A\n({}1)\n", "~".repeat(d)));
        edge.push(format!("A\n{}1\n{}", "loop(i,1)\n".repeat(d), "end loop\n".repeat(d)));
        edge.push(format!("A\n{}1\n{}", "while(1)\n".repeat(d), "end while\n".repeat(d)));
        edge.push(format!("A\n({}1{})\n", "ite(1,".repeat(d), ",0)".repeat(d)));
        edge.push(format!("A\n{}\n", "bits(1,1) ".repeat(d)));
        edge.push(format!("A\n{}1\n", "let a = 1;\n".repeat(d)));
        edge.push(format!("A\n{}1\n", "declare v{} = 1;\n".repeat(1).replace("{}", "0").repeat(d)));
    }
    let crlf: Vec<String> = edge.iter().filter(|s| s.len() < 10_000).map(|s| s.replace('\n', "\r\n")).collect();
    edge.extend(crlf);
    let mut n = 0u64;
    for (i, s) in edge.iter().enumerate() {
        c09_check(s, i as u64, "edge", acc);
        n += 1;
    }
    // truncation at EVERY char boundary
    let mut r = Prng::new(4242);
    let progs = if tier == "thorough" { 400 } else { 40 };
    let mut cuts = 0u64;
    for p in 0..progs {
        let c = corpus_case(&mut r);
        let mut lay = c.layout_opts.clone();
        if p % 3 == 0 {
            lay.eol = 1;
        }
        let t = pp::print(&c.program, &lay).text;
        for k in 0..=t.len() {
            if t.is_char_boundary(k) {
                c09_check(&t[..k], p as u64, "truncate-everywhere", acc);
                cuts += 1;
            }
        }
    }
    // observation only (not a verdict): parse time for inputs of doubling size
    let mut timing = vec![];
    for shape in ["rows", "operator-chain-line", "let-chain"] {
        let mut series = vec![];
        for k in 0..6 {
            let n = 2000usize << k;
            let text = match shape {
                "rows" => format!("A B\n{}", "1 (1+2)\n".repeat(n)),
                // (kept short: a flat chain of n operators builds a tree of depth n and the
                // parser's recursive conversion exhausts the native stack for very large n -
                // that is the known finding C09 flat-operator-chain, probed in its own process)
                "operator-chain-line" => format!("A\n({})\n", "1+".repeat(n / 40) + "1"),
                _ => format!("A\n{}1\n", "let a = a + 1;\n".repeat(n)),
            };
            let t0 = std::time::Instant::now();
            let ok = guarded(|| ParsedTestCase::from_str(&text).is_ok());
            series.push(json!({"bytes": text.len(), "micros": t0.elapsed().as_micros() as u64, "result": format!("{ok:?}")}));
            if ok.is_err() {
                acc.violation(k as u64, "timing", Finding::new("panic-on-large-input", format!("{shape} with n={n}: {ok:?}")), json!({"shape": shape, "n": n}));
            }
        }
        timing.push(json!({"shape": shape, "series": series}));
    }
    json!({"structured_edge_cases": n, "programs_truncated_at_every_char_boundary": progs, "truncations": cuts, "observation_parse_time_vs_size": timing})
}

// ----------------------------------------------------------------------------------- C12

pub const META_C12: Meta = Meta {
    id: "C12",
    level: "exploration",
    rule: "Each case takes one generated valid program (accepted by the crate in the same run, so a rejection is due to the edit) and applies every applicable instance of 16 single grammar-breaking edit operators, working on token spans found by the harness tokenizer: M1 delete a block's `end loop`/`end while`; M2 swap `end loop`<->`end while`, bare `end`, `end repeat`; M3 insert `end loop`/`end while` at top level; M4 delete / append one row entry, bits(k+-1,..); M5 delete one `;` `)` `(` `,`; M6 unknown function name, one argument more / fewer; M7 replace a literal by 2^63 / 2^64 in decimal, hex, binary, octal; M8 bits(k,..) with k in {65,100,255,256,10^6} and k+256, k+512, k+2^16, k+2^32; M9 duplicate a header name, duplicate a declare; M10 header only, no line break; M11 truncate at every token boundary at block depth > 0 or strictly inside a statement; M12 more tokens on the same line after a complete statement (`let a = 1; 1 0`, `end loop 1`), `end loopx`; M13 letters glued to a number; M14 a comma where none belongs - dangling before the closing parenthesis, leading after the opening one, doubled, or an empty argument list - in calls of random / ite / signExt and in bits( loop( repeat( while(; M15 one argument too many / too few in bits( loop( repeat( while(; M16 damaged let / declare heads (no name, a number as name, two names, no `=`, `= =`); 1.5% of the cases are instead wide headers (34-300 names) in which one name is repeated at positions around 32 / 64 / 128 / 256 or at the far end, adjacent or far apart, the column count staying right, and 0.8% narrow headers that repeat a LONG name (63-300 bytes, ASCII or multi-byte) - each in three endings {as is, trailing newline added, trailing newlines removed} and in LF and CRLF. A mutant counts only if it is invalid by construction AND the independent recogniser refparse rejects it (so a mistake in either cannot alarm alone); then from_str must return Err. Ok = violation; a panic is C09's business and only counted. M6 also adds 256 and 65536 arguments to a call (a count kept in 8 / 16 bits comes round to the right arity). 0.6% of the cases are bits(k, e) with k = 65..300 in rows whose length is right (header of k+0..2 one-bit columns), so the width alone makes the text invalid. M9 also copies a declare to the end of the program and to right behind the header. Non-trivial = a confirmed-invalid mutant of an accepted parent, distinct by text.",
    assumptions: &["refparse.rs (recogniser written from the grammar as stated in C08/C12) confirms invalidity", "harness tokenizer reflex.rs locates tokens"],
    quick_cases: 8000,
    thorough_cases: 200000,
    floor: 400000,
};

struct Mutant {
    op: &'static str,
    text: String,
}

fn endings(m: Mutant, out: &mut Vec<Mutant>) {
    let t = m.text.clone();
    out.push(Mutant { op: m.op, text: format!("{}\n", t.trim_end_matches(['\n', '\r'])) });
    out.push(Mutant { op: m.op, text: t.trim_end_matches(['\n', '\r', ' ', '\t']).to_string() });
    out.push(m);
}

fn mutants(text: &str, r: &mut Prng) -> Vec<Mutant> {
    let mut out: Vec<Mutant> = vec![];
    let Some((names, off)) = reflex::header(text) else { return out };
    let toks = reflex::lex(text, off);
    let tx = |t: &reflex::Tok| reflex::text(text, t);
    let splice = |a: usize, b: usize, with: &str| format!("{}{}{}", &text[..a], with, &text[b..]);
    // block structure: depth before each token, statement starts
    let mut depth = 0i32;
    let mut depth_at = vec![];
    for (i, t) in toks.iter().enumerate() {
        if t.k == K::Kw && tx(t) == "end" {
            depth -= 1;
        }
        depth_at.push(depth);
        if t.k == K::Kw && matches!(tx(t), "loop" | "while") && (i == 0 || !(toks[i - 1].k == K::Kw && tx(&toks[i - 1]) == "end")) {
            depth += 1;
        }
    }
    let mut push = |op: &'static str, t: String, out: &mut Vec<Mutant>| endings(Mutant { op, text: t }, out);
    for (i, t) in toks.iter().enumerate() {
        let w = tx(t);
        match t.k {
            K::Kw if w == "end" && i + 1 < toks.len() => {
                let kw = &toks[i + 1];
                // M1: delete the closing line
                push("M1-delete-end", splice(t.start, kw.end, ""), &mut out);
                // M2: wrong closer
                let other = if tx(kw) == "loop" { "while" } else { "loop" };
                push("M2-swap-end", splice(kw.start, kw.end, other), &mut out);
                push("M2-bare-end", splice(kw.start, kw.end, ""), &mut out);
                push("M2-end-repeat", splice(kw.start, kw.end, "repeat"), &mut out);
                // an identifier that merely starts with the keyword
                push("M2-end-lookalike", splice(kw.end, kw.end, *r.pick(&["x", "_", "1", "s"])), &mut out);
                // M12: something more on the same line after a complete statement
                push("M12-trailing-tokens", splice(kw.end, kw.end, *r.pick(&[" 1", " X", " end", " loop", " ;"])), &mut out);
            }
            K::Kw if matches!(w, "let" | "declare") && i + 2 < toks.len() && toks[i + 1].k == K::Ident => {
                // M16: damaged let / declare heads
                let name = &toks[i + 1];
                let eq = &toks[i + 2];
                push("M16-let-without-name", splice(name.start, name.end, ""), &mut out);
                push("M16-let-number-as-name", splice(name.start, name.end, "7"), &mut out);
                push("M16-let-without-equals", splice(eq.start, eq.end, " "), &mut out);
                push("M16-let-double-equals-sign", splice(eq.end, eq.end, " ="), &mut out);
                push("M16-let-two-names", splice(name.end, name.end, " zz"), &mut out);
            }
            K::Semi => {
                push("M5-delete-semi", splice(t.start, t.end, ""), &mut out);
                // M12: a second statement / a row on the same line
                if r.chance(1, 2) {
                    let extra = match r.below(4) {
                        0 => format!(" {}", vec!["1"; names.len()].join(" ")),
                        1 => " let zz = 1;".to_string(),
                        2 => " ;".to_string(),
                        _ => " resetRandom;".to_string(),
                    };
                    push("M12-trailing-tokens", splice(t.end, t.end, &extra), &mut out);
                }
            }
            K::LParen => push("M5-delete-lparen", splice(t.start, t.end, ""), &mut out),
            K::RParen => push("M5-delete-rparen", splice(t.start, t.end, ""), &mut out),
            K::Comma => {
                push("M5-delete-comma", splice(t.start, t.end, " "), &mut out);
                push("M14-double-comma", splice(t.start, t.end, if r.chance(1, 2) { ",," } else { ", ," }), &mut out);
            }
            K::Ident | K::Kw if i + 1 < toks.len() && toks[i + 1].k == K::LParen && matches!(w, "random" | "ite" | "signExt" | "bits" | "loop" | "repeat" | "while") => {
                // M14: argument lists with a dangling / leading comma or no argument at all
                let mut d = 0i32;
                let mut close = None;
                for (j, u) in toks.iter().enumerate().skip(i + 1) {
                    match u.k {
                        K::LParen => d += 1,
                        K::RParen => {
                            d -= 1;
                            if d == 0 {
                                close = Some(j);
                                break;
                            }
                        }
                        _ => {}
                    }
                }
                if let Some(j) = close {
                    let c = &toks[j];
                    if matches!(w, "bits" | "loop" | "repeat" | "while") {
                        // M15: one argument too many / too few for the keyword forms
                        push("M15-keyword-extra-argument", splice(c.start, c.start, *r.pick(&[",1", ", i", ",(2)"])), &mut out);
                        let mut d2 = 0i32;
                        let mut last_comma = None;
                        for u in &toks[i + 1..j] {
                            match u.k {
                                K::LParen => d2 += 1,
                                K::RParen => d2 -= 1,
                                K::Comma if d2 == 1 => last_comma = Some(u.start),
                                _ => {}
                            }
                        }
                        if let Some(at) = last_comma {
                            push("M15-keyword-missing-argument", splice(at, c.start, ""), &mut out);
                        }
                    }
                    push("M14-dangling-comma", splice(c.start, c.start, *r.pick(&[",", " ,", ", "])), &mut out);
                    push("M14-leading-comma", splice(toks[i + 1].end, toks[i + 1].end, ","), &mut out);
                    push("M14-empty-argument-list", splice(toks[i + 1].end, c.start, ""), &mut out);
                }
                if !matches!(w, "random" | "ite" | "signExt") {
                    continue;
                }
                push("M6-unknown-function", splice(t.start, t.end, "rnd"), &mut out);
                push("M6-extra-argument", splice(toks[i + 1].end, toks[i + 1].end, "1,"), &mut out);
                // 256 (65536) arguments more: an argument count kept in a u8 (u16) would come round
                // to the right arity again (after seeded change V-C12-agent19-3)
                if r.chance(1, 3) {
                    push("M6-256-extra-arguments", splice(toks[i + 1].end, toks[i + 1].end, &"1,".repeat(256)), &mut out);
                }
                if r.chance(1, 40) {
                    push("M6-65536-extra-arguments", splice(toks[i + 1].end, toks[i + 1].end, &"1,".repeat(65536)), &mut out);
                }
                if w != "random" {
                    // drop the first argument up to and including its comma (top-level comma)
                    let mut d = 0;
                    for u in toks.iter().skip(i + 2) {
                        match u.k {
                            K::LParen => d += 1,
                            K::RParen => d -= 1,
                            K::Comma if d == 0 => {
                                push("M6-missing-argument", splice(toks[i + 1].end, u.end, ""), &mut out);
                                break;
                            }
                            _ => {}
                        }
                        if d < 0 {
                            break;
                        }
                    }
                }
            }
            K::Dec | K::Hex | K::Bin | K::Oct => {
                if r.chance(1, 6) {
                    // M13: letters glued to a number (lexes as number + identifier)
                    push("M13-number-with-letters", splice(t.end, t.end, *r.pick(&["ab", "q", "_", "G", "h1"])), &mut out);
                }
                if r.chance(1, 3) {
                    let big = *r.pick(&[
                        "9223372036854775808",
                        "18446744073709551616",
                        "0x8000000000000000",
                        "0X10000000000000000",
                        "0b1000000000000000000000000000000000000000000000000000000000000000",
                        "01000000000000000000000",
                        "99999999999999999999999999",
                    ]);
                    push("M7-literal-overflow", splice(t.start, t.end, big), &mut out);
                }
                // M8 / M4: bits(k, ...)
                if i >= 2 && toks[i - 1].k == K::LParen && toks[i - 2].k == K::Kw && tx(&toks[i - 2]) == "bits" {
                    let k = reflex::number_value(text, t).unwrap_or(0);
                    for big in ["65", "100", "255", "256", "1000000"] {
                        push("M8-bits-too-wide", splice(t.start, t.end, big), &mut out);
                    }
                    // widths that are congruent to the original one modulo a power of two (a
                    // width stored in a narrow integer before it is validated would wrap)
                    for m in [256i64, 512, 65536, 1 << 32] {
                        push("M8-bits-too-wide", splice(t.start, t.end, &(k + m).to_string()), &mut out);
                    }
                    push("M4-bits-plus-one", splice(t.start, t.end, &(k + 1).to_string()), &mut out);
                    if k > 0 {
                        push("M4-bits-minus-one", splice(t.start, t.end, &(k - 1).to_string()), &mut out);
                    }
                }
            }
            _ => {}
        }
        // M11: truncation at this token boundary (before token i) if inside a block, or
        // strictly inside a statement (previous token exists on the same line)
        let inside_stmt = i > 0 && toks[i - 1].k != K::Eol && t.k != K::Eol;
        if depth_at[i] > 0 || inside_stmt {
            if r.chance(1, 2) {
                let cut = if i > 0 { toks[i - 1].end } else { off };
                push("M11-truncate", text[..cut].to_string(), &mut out);
            }
        }
    }
    // M3: end at top level
    let line_starts: Vec<usize> = std::iter::once(0usize)
        .chain(toks.iter().enumerate().filter(|(i, t)| t.k == K::Eol && depth_at.get(i + 1).copied().unwrap_or(0) == 0 && depth_at[*i] == 0).map(|(_, t)| t.end - off))
        .collect();
    for &ls in line_starts.iter().take(6) {
        let at = off + ls;
        for kw in ["end loop\n", "end while\n"] {
            push("M3-end-at-top-level", splice(at, at, kw), &mut out);
        }
    }
    // M4: delete / append a row entry (rows = lines whose first token starts a row)
    let mut i = 0;
    while i < toks.len() {
        let line_start = i;
        let mut j = i;
        while j < toks.len() && toks[j].k != K::Eol {
            j += 1;
        }
        if j > line_start {
            let first = &toks[line_start];
            let is_row = matches!(first.k, K::Dec | K::Hex | K::Bin | K::Oct | K::LParen) || (first.k == K::Ident) || (first.k == K::Kw && tx(first) == "bits");
            if is_row {
                push("M4-append-entry", splice(toks[j - 1].end, toks[j - 1].end, " 0"), &mut out);
                // delete the first entry if it is a single token
                if matches!(first.k, K::Dec | K::Hex | K::Bin | K::Oct | K::Ident) {
                    push("M4-delete-entry", splice(first.start, first.end, ""), &mut out);
                }
            }
        }
        i = j + 1;
    }
    // M9: duplicate header name / duplicate declare
    if let Some(first) = names.first() {
        let hdr_end = names.last().unwrap().2;
        push("M9-duplicate-header-name", splice(hdr_end, hdr_end, &format!(" {}", first.0)), &mut out);
    }
    for (i, t) in toks.iter().enumerate() {
        if t.k == K::Kw && tx(t) == "declare" {
            let mut j = i;
            while j < toks.len() && toks[j].k != K::Semi {
                j += 1;
            }
            if j < toks.len() {
                let stmt = &text[t.start..toks[j].end];
                push("M9-duplicate-declare", splice(toks[j].end, toks[j].end, &format!("\n{stmt}")), &mut out);
                // ... and far from the original: at the very end of the program and right behind
                // the header, with whatever other declarations lie between the two (after seeded
                // change X-C12-agent21-4: duplicates looked for among neighbours only)
                push("M9-duplicate-declare-at-the-end", format!("{}\n{stmt}\n", text.trim_end_matches(['\n', '\r', ' ', '\t'])), &mut out);
                if let Some(nl) = text[names.last().unwrap().2..].find('\n') {
                    let at = names.last().unwrap().2 + nl + 1;
                    push("M9-duplicate-declare-behind-the-header", splice(at, at, &format!("{stmt}\n")), &mut out);
                }
            }
        }
    }
    // M10: header with no line break
    let hdr = &text[..names.last().unwrap().2];
    out.push(Mutant { op: "M10-header-without-line-break", text: hdr.to_string() });
    // ... also when the text is cut between the CR and the LF of a CRLF line end, or the
    // header is followed by blanks only (a carriage return is a blank, not a line break)
    for tail in ["\r", " \r", "\t \r\r", "  ", "\x0c"] {
        out.push(Mutant { op: "M10-header-without-line-break", text: format!("{hdr}{tail}") });
    }
    out
}

/// Wide headers (34-300 names) in which ONE name is repeated, at positions around 32 / 64 /
/// 128 / 256 and at the far end, adjacent or far apart: the column count stays right, the
/// duplicate is the only thing wrong - the program must be rejected.
fn c12_wide_duplicates(case_seed: u64, r: &mut Prng, acc: &mut Acc) {
    let n = *r.pick(&[34usize, 35, 40, 65, 66, 67, 70, 129, 130, 131, 257, 258, 300]);
    let names: Vec<String> = (0..n).map(|i| format!("s{i}")).collect();
    let row = vec!["1"; n].join(" ");
    let mut pairs: Vec<(usize, usize)> = vec![];
    for &j in &[0usize, 1, 31, 32, 33, 63, 64, 65, 127, 128, 129, 255, 256, 257] {
        if j + 1 < n {
            pairs.push((j, j + 1));
            pairs.push((j, n - 1));
            if j + 2 < n {
                pairs.push((j, j + 2 + r.below(n - j - 2)));
            }
        }
    }
    pairs.push((n - 2, n - 1));
    let mut ok = true;
    for (j, k) in pairs {
        let mut h = names.clone();
        h[k] = h[j].clone();
        for tail in ["\n", ""] {
            let text = format!("{}\n{row}{tail}", h.join(" "));
            if refparse::recognise(&text).is_ok() {
                acc.tag("mutant_not_confirmed_invalid_(skipped)");
                continue;
            }
            acc.evaluations += 1;
            acc.distinct.insert(crate::prng::hash_bytes(text.as_bytes()));
            match guarded(|| ParsedTestCase::from_str(&text)) {
                Err(_) => acc.tag("observation:parser_panic_on_mutant_(C09)"),
                Ok(Err(_)) => acc.tag("rejected:M9-duplicate-name-in-wide-header"),
                Ok(Ok(_)) => {
                    acc.violation(
                        case_seed,
                        "M9-duplicate-name-in-wide-header",
                        Finding::new("accepted-malformed:M9-duplicate-name-in-wide-header", format!("header of {n} names in which column {k} repeats the name of column {j} is accepted")),
                        json!({"text": text}),
                    );
                    ok = false;
                }
            }
        }
        if !ok {
            return;
        }
    }
    acc.held += 1;
    acc.nontrivial.insert(crate::prng::hash_bytes(format!("wide-dup-{n}-{case_seed}").as_bytes()));
}

/// Narrow headers in which a LONG name (63 / 64 / 65 / 100 / 300 bytes, ASCII or multi-byte)
/// is repeated: rejected like any other duplicate.
fn c12_long_name_duplicates(case_seed: u64, r: &mut Prng, acc: &mut Acc) {
    let unit = *r.pick(&["a", "Q", "é", "数", "_"]);
    for bytes in [63usize, 64, 65, 66, 100, 127, 128, 129, 300] {
        let reps = bytes.div_ceil(unit.len());
        let long = format!("L{}", unit.repeat(reps));
        let other = format!("M{}", unit.repeat(reps));
        for (hdr, row) in [
            (format!("{long} {long}"), "1 1"),
            (format!("A {long} B {long}"), "1 1 1 1"),
            (format!("{long} {other} {long}"), "1 1 1"),
            (format!("{other} {long} {long} C"), "1 1 1 1"),
        ] {
            let text = format!("{hdr}\n{row}\n");
            if refparse::recognise(&text).is_ok() {
                acc.tag("mutant_not_confirmed_invalid_(skipped)");
                continue;
            }
            acc.evaluations += 1;
            acc.distinct.insert(crate::prng::hash_bytes(text.as_bytes()));
            match guarded(|| ParsedTestCase::from_str(&text)) {
                Err(_) => acc.tag("observation:parser_panic_on_mutant_(C09)"),
                Ok(Err(_)) => acc.tag("rejected:M9-duplicate-long-name"),
                Ok(Ok(_)) => {
                    acc.violation(
                        case_seed,
                        "M9-duplicate-long-name",
                        Finding::new("accepted-malformed:M9-duplicate-long-name", format!("a header that repeats a name of {} bytes is accepted", long.len())),
                        json!({"text": text}),
                    );
                    return;
                }
            }
        }
    }
    acc.held += 1;
    acc.nontrivial.insert(crate::prng::hash_bytes(format!("long-dup-{unit}-{case_seed}").as_bytes()));
}

/// bits(k, e) with k just above 64 in a row whose LENGTH is right: the header is wide enough for
/// the k one-bit entries, so only the width itself makes the text invalid (survivor of the
/// operator-mutation sweep: `n > 64` -> `n > 65` in the parser; the narrow M8 mutants are also
/// refused for their row length).
fn c12_wide_bits(case_seed: u64, r: &mut Prng, acc: &mut Acc) {
    for k in [65usize, 66, 67, 70, 100, 128, 129, 255, 256, 257, 300] {
        let extra = r.below(3);
        let n = k + extra;
        let header: Vec<String> = (0..n).map(|i| format!("I{i}")).collect();
        let tail = " 1".repeat(extra);
        let e = *r.pick(&["5", "(1 << 63) + 1", "a", "0 - 1"]);
        let at_end = extra > 0 && r.chance(1, 2);
        let row = if at_end { format!("{}bits({k}, {e})", "1 ".repeat(extra)) } else { format!("bits({k}, {e}){tail}") };
        for body in [format!("let a = 3;\n{row}\n"), format!("let a = 3;\nloop(i,2)\n{row}\nend loop\n"), format!("let a = 3;\nrepeat(2) {row}\n")] {
            let text = format!("{}\n{body}", header.join(" "));
            if refparse::recognise(&text).is_ok() {
                acc.tag("mutant_not_confirmed_invalid_(skipped)");
                continue;
            }
            // the same text with a width of 64 is a valid test: the width is the only defect
            acc.evaluations += 1;
            acc.distinct.insert(crate::prng::hash_bytes(text.as_bytes()));
            match guarded(|| ParsedTestCase::from_str(&text)) {
                Err(_) => acc.tag("observation:parser_panic_on_mutant_(C09)"),
                Ok(Err(_)) => acc.tag("rejected:M8-wide-bits-in-a-row-of-the-right-length"),
                Ok(Ok(_)) => {
                    acc.violation(
                        case_seed,
                        "M8-wide-bits",
                        Finding::new("accepted-malformed:M8-wide-bits", format!("bits({k}, ..) is accepted in a row whose length is right ({n} columns)")),
                        json!({"text": text}),
                    );
                    return;
                }
            }
        }
    }
    acc.held += 1;
    acc.nontrivial.insert(crate::prng::hash_bytes(format!("wide-bits-{case_seed}").as_bytes()));
}

pub fn c12(case_seed: u64, acc: &mut Acc) {
    let mut r = Prng::new(case_seed);
    acc.cases += 1;
    if r.chance(6, 1000) {
        return c12_wide_bits(case_seed, &mut r, acc);
    }
    if r.chance(15, 1000) {
        return c12_wide_duplicates(case_seed, &mut r, acc);
    }
    if r.chance(8, 1000) {
        return c12_long_name_duplicates(case_seed, &mut r, acc);
    }
    let c = corpus_case(&mut r);
    let mut lay = c.layout_opts.clone();
    lay.trailing_comments = 0;
    let base = pp::print(&c.program, &lay).text;
    acc.evaluations += 1;
    match guarded(|| ParsedTestCase::from_str(&base)) {
        Ok(Ok(_)) => {}
        Ok(Err(e)) => {
            acc.violation(case_seed, "parent", Finding::new("rejected-valid-program:parse", err_chain(&e)), json!({"text": base}));
            return;
        }
        Err(p) => {
            acc.violation(case_seed, "parent", Finding::new(p.signature(), format!("{p:?}")), json!({"text": base}));
            return;
        }
    }
    if let Err(why) = refparse::recognise(&base) {
        // recogniser and crate disagree on a generated valid program: harness defect, be loud
        acc.violation(case_seed, "parent", Finding::new("harness:recogniser-rejects-valid-parent", why), json!({"text": base}));
        return;
    }
    let ms = mutants(&base, &mut r);
    let mut ok = true;
    for m in ms {
        for crlf in [false, true] {
            let text = if crlf { m.text.replace("\r\n", "\n").replace('\n', "\r\n") } else { m.text.clone() };
            match refparse::recognise(&text) {
                Ok(()) => {
                    acc.tag("mutant_not_confirmed_invalid_(skipped)");
                    continue;
                }
                Err(_) => {}
            }
            acc.evaluations += 1;
            let h = crate::prng::hash_bytes(text.as_bytes());
            if !acc.distinct.insert(h) {
                continue;
            }
            match guarded(|| ParsedTestCase::from_str(&text)) {
                Err(_) => acc.tag("observation:parser_panic_on_mutant_(C09)"),
                Ok(Err(e)) => {
                    acc.tag(&format!("rejected:{}", m.op));
                    let _ = e;
                    acc.nontrivial.insert(h);
                }
                Ok(Ok(_)) => {
                    ok = false;
                    let why = refparse::recognise(&text).err().unwrap_or_default();
                    acc.violation(
                        case_seed,
                        m.op,
                        Finding::new(format!("accepted-malformed:{}", m.op), format!("mutant ({}) is accepted by from_str although it is not a valid test: {why}", m.op)),
                        json!({"text": text, "parent": base}),
                    );
                }
            }
        }
    }
    if ok {
        acc.held += 1;
        acc.sample(|| json!({"parent": base, "operators": "M1..M16, each x3 endings x LF/CRLF"}));
    }
}

// ----------------------------------------------------------------------------------- C20

pub const META_C20: Meta = Meta {
    id: "C20",
    level: "exploration",
    rule: "Metamorphic monitor: a base text (generated programs of profiles flow / expr / expand / random-free, plus a pool of token-boundary hazards: identifiers looper end1 bitsy letx, 0x1F next to an identifier, a<<b, a< <b (invalid), a!=b, a! =b (invalid)) and 4 (quick) / 8 (thorough) re-laid-out variants composed at random from: change every blank run between tokens to 1-4 of {space, tab, CR}; delete blank runs where the harness tokenizer certifies the neighbours do not fuse; append # comments (with #, non-ASCII, CR) to lines after the header; insert blank / comment-only lines after the header; LF -> CRLF; rewrite integer literals in another radix / letter case with the same value. 2% of the cases are instead a radix family: one number at the edge of the 64-bit range (2^62 .. 2^64+1000) spelled in decimal, hex (both letter cases, with leading zeros), binary and octal inside three program shapes - from_str must give the same verdict for every spelling, and the same rows where it accepts. Every variant is certified by re-tokenising: its token sequence (kinds + lexemes, numbers by value, blank lines collapsed) must equal the base's, otherwise it is discarded and counted. Oracle: accepted/rejected verdicts equal; every item of the two row streams equal (inputs incl. changed, outputs, expected, errors), except that `line` must be shifted by exactly the number of lines inserted above that row. Two of the five radix-family shapes put a unary minus in front of the literal, each spelling also with blank space behind the minus. Non-trivial = variant differs from its base in >= 3 places and the base yields >= 2 rows or is rejected after a valid header.",
    assumptions: &["the harness tokenizer decides what `the same token sequence` means"],
    quick_cases: 40000,
    thorough_cases: 1000000,
    floor: 10000,
};

const HAZARD_BASES: [&str; 10] = [
    "A Q\nlet looper = 1;\nlet end1 = 2;\nlet bitsy = 3;\nlet letx = looper + end1;\n(letx) (bitsy)\n(end1) (looper)\n",
    "A Q\nlet a = 3;\nlet b = 1;\n(a<<b) (a>>b)\n(a<b) (a>b)\n(a<=b) (a>=b)\n(a!=b) (a=b)\n",
    "A Q\nlet a = 3;\nlet b = 1;\n(a< <b) 1\n",
    "A Q\nlet a = 3;\nlet b = 1;\n(a! =b) 1\n",
    "A Q\nlet x1F = 2;\n(0x1F) (x1F)\n(0x1F+x1F) (0X1f)\n(0b11) (0B11)\n(017) 017\n",
    "A Q\nlet whiley = 1;\nlet declared = 2;\nlet repeats = 3;\n(whiley) (declared+repeats)\nrepeat(2) (n) (repeats)\n",
    "A Q\nloop(loopy,2)\n(loopy) 1\nend loop\nlet e = 1;\n(e) 0\n",
    "A Q\nlet a = 1;\n(-a) (- -a)\n(!a) (!!a)\n(~a) (~-a)\n(a- -a) (a--a)\n",
    "CLK Q\nC 1\nC X\nX Z\nc x\n",
    "A Q\n1 1\n1 0 0\n",
];

struct Variant {
    text: String,
    /// base line (1-based) -> variant line
    line_map: Vec<usize>,
    edits: usize,
}

fn relayout(base: &str, r: &mut Prng) -> Variant {
    // split into lines keeping terminators
    let lines: Vec<&str> = base.split_inclusive('\n').collect();
    let hdr_line = {
        // index of the header line = first line with a non-blank token
        lines.iter().position(|l| l.split([' ', '\t', '\r', '\x0c', '\n']).any(|t| !t.is_empty())).unwrap_or(0)
    };
    let do_ws = r.chance(2, 3);
    let do_del = r.chance(1, 2);
    let do_comments = r.chance(1, 2);
    let do_insert = r.chance(2, 3);
    let do_crlf = r.chance(1, 3);
    let do_radix = r.chance(1, 2);
    let mut out = String::new();
    let mut line_map = vec![0usize; lines.len() + 2];
    let mut vline = 1usize;
    let mut edits = 0usize;
    for (li, l) in lines.iter().enumerate() {
        let (body, term) = match l.strip_suffix('\n') {
            Some(b) => (b, "\n"),
            None => (*l, ""),
        };
        let (body, had_cr) = match body.strip_suffix('\r') {
            Some(b) => (b, true),
            None => (body, false),
        };
        let after_header = li > hdr_line;
        // insert blank / comment-only lines before this line (only after the header)
        if after_header && do_insert && r.chance(1, 4) {
            for _ in 0..(1 + r.below(2)) {
                out.push_str(*r.pick(&["", " \t", "# inserted", "#", "   # é ☃ # x", "\t#loop(i,2)", "# previously:\r1 1", "\r", " \r \r"]));
                out.push_str(if do_crlf { "\r\n" } else { "\n" });
                vline += 1;
                edits += 1;
            }
        }
        line_map[li + 1] = vline;
        // rewrite the line token by token
        let mut nl = String::new();
        if li < hdr_line {
            nl.push_str(body);
        } else if li == hdr_line {
            // header: only blank runs between names may change
            let mut first = true;
            let lead: String = body.chars().take_while(|c| matches!(c, ' ' | '\t' | '\r' | '\x0c')).collect();
            nl.push_str(&lead);
            for name in body.split([' ', '\t', '\r', '\x0c']).filter(|t| !t.is_empty()) {
                if !first {
                    if do_ws {
                        for _ in 0..(1 + r.below(3)) {
                            nl.push(*r.pick(&[' ', '\t', ' ', '\r']));
                        }
                        edits += 1;
                    } else {
                        nl.push(' ');
                    }
                }
                first = false;
                nl.push_str(name);
            }
        } else {
            // body line: split off an existing comment
            let (code, comment) = match body.find('#') {
                Some(p) => (&body[..p], &body[p..]),
                None => (body, ""),
            };
            let toks = reflex::lex(code, 0);
            let lead: String = code.chars().take_while(|c| matches!(c, ' ' | '\t' | '\r' | '\x0c')).collect();
            nl.push_str(&lead);
            for (ti, t) in toks.iter().enumerate() {
                if ti > 0 {
                    let gap = &code[toks[ti - 1].end..t.start];
                    if gap.is_empty() {
                        if do_ws && r.chance(1, 3) {
                            nl.push(*r.pick(&[' ', '\t']));
                            edits += 1;
                        }
                    } else if do_del && r.chance(1, 2) {
                        // tentative deletion, certified below for the whole variant; locally
                        // refuse when the two neighbours would obviously fuse
                        let a = &code[toks[ti - 1].start..toks[ti - 1].end];
                        let b = &code[t.start..t.end];
                        let joined = format!("{a}{b}");
                        let re = reflex::lex(&joined, 0);
                        if re.len() == 2 && &joined[re[0].start..re[0].end] == a && &joined[re[1].start..re[1].end] == b {
                            edits += 1;
                        } else {
                            nl.push_str(gap);
                        }
                    } else if do_ws {
                        for _ in 0..(1 + r.below(4)) {
                            nl.push(*r.pick(&[' ', '\t', '\r', ' ']));
                        }
                        edits += 1;
                    } else {
                        nl.push_str(gap);
                    }
                }
                let lexeme = &code[t.start..t.end];
                if do_radix && matches!(t.k, K::Dec | K::Hex | K::Bin | K::Oct) && r.chance(1, 2) {
                    if let Some(v) = reflex::number_value(code, t) {
                        let rx = *r.pick(&[Radix::Dec, Radix::Hex(false, false), Radix::Hex(true, true), Radix::Hex(false, true), Radix::Bin(false), Radix::Bin(true), Radix::Oct]);
                        nl.push_str(&crate::pp::num_text(v, rx));
                        edits += 1;
                        continue;
                    }
                }
                nl.push_str(lexeme);
            }
            if let Some(last) = toks.last() {
                nl.push_str(&code[last.end..]);
            } else {
                nl.push_str(&code[lead.len()..]);
            }
            nl.push_str(comment);
            if do_comments && comment.is_empty() && r.chance(1, 3) {
                nl.push_str(*r.pick(&[" # c", "#x", "\t# a # b", " # é☃", " #\r# y", "# end loop", " # was:\r1 1", "#a\rb", " # \r\r) ;"]));
                edits += 1;
            }
        }
        out.push_str(&nl);
        if term.is_empty() {
            if had_cr {
                out.push('\r');
            }
        } else if do_crlf || had_cr {
            out.push_str("\r\n");
            if do_crlf && !had_cr {
                edits += 1;
            }
        } else {
            out.push('\n');
        }
        if !term.is_empty() {
            vline += 1;
        }
    }
    Variant { text: out, line_map, edits }
}

fn collapse(v: Vec<String>) -> Vec<String> {
    let mut o: Vec<String> = vec![];
    for t in v {
        // blank lines are not statements: collapse runs of line ends, and drop those that
        // directly follow the header (whose own line end is part of the header)
        if t == "EOL" && o.last().map(|l| l == "EOL" || l.starts_with("H:")).unwrap_or(true) {
            continue;
        }
        o.push(t);
    }
    while o.last().map(|l| l == "EOL").unwrap_or(false) {
        o.pop();
    }
    o
}

/// One number at the edge of the 64-bit range spelled in every radix and letter case: the
/// spellings are re-layouts of one another ("other radix / case for the same number"), so
/// `from_str` must give the same verdict for all of them, and the same rows where it accepts.
fn c20_radix_family(case_seed: u64, r: &mut Prng, acc: &mut Acc) {
    let v: u128 = match r.below(10) {
        0 => (1u128 << 63) - 1,
        1 => 1u128 << 63,
        2 => (1u128 << 63) + r.below(1000) as u128,
        3 => (1u128 << 64) - 1,
        4 => 1u128 << 64,
        5 => (1u128 << 62) + r.next_u64() as u128 % (1u128 << 62),
        6 => (1u128 << 63) | (r.next_u64() as u128),
        7 => (1u128 << 64) + r.below(1000) as u128,
        8 => (r.next_u64() >> 1) as u128,
        _ => r.next_u64() as u128,
    };
    let spellings = vec![
        format!("{v}"),
        format!("0x{v:x}"),
        format!("0x{v:X}"),
        format!("0X{v:x}"),
        format!("0b{v:b}"),
        format!("0B{v:b}"),
        format!("0{v:o}"),
        format!("0x0{v:x}"),
        format!("0b000{v:b}"),
        format!("00{v:o}"),
    ];
    // shapes 3 and 4 put a unary minus in front of the literal (a literal of 2^63 does not
    // become valid by that, in any radix and with or without blank space behind the minus; after
    // seeded change X-C20-agent21-8, which read `-9223372036854775808` off the source text)
    let shape = r.below(5);
    let text = |lit: &str| match shape {
        0 => format!("A Q\n{lit} X\n1 X\n"),
        1 => format!("A Q\n({lit} >> 60) X\n1 X\n"),
        3 => format!("A Q\n(-{lit}) X\n1 X\n"),
        4 => format!("A Q\nlet a = -{lit};\n(a >> 56) X\n"),
        _ => format!("A Q\nlet a = {lit};\n(a & 0xFF) X\n"),
    };
    let mut spellings = spellings;
    if shape >= 3 {
        let gaps: Vec<String> = spellings.iter().take(5).flat_map(|s| [format!(" {s}"), format!("\t{s}"), format!("  \t {s}")]).collect();
        spellings.extend(gaps);
    }
    let sigs = vec![Sig { name: "A".into(), bits: 64, kind: SigKind::In(InVal::V(0)) }, Sig { name: "Q".into(), bits: 64, kind: SigKind::Out }];
    let script = Script { layout: vec![1], values: ValueFn::Unique { salt: 3, narrow: false }, faults: vec![], override_write: false, rebuild_signals: false };
    let opts = RunOpts { max_steps: 20, probe_after_end: 0, stop_at_error: true, seed: Some(1), continue_on: None };
    let base_text = text(&spellings[0]);
    let b = run_text(&base_text, &sigs, &script, &opts);
    acc.evaluations += 1;
    if no_panic(&b).is_some() {
        acc.inconclusive("base panics (C09/C10)");
        return;
    }
    let items = |t: &RealTrace| t.steps.iter().map(|s| s.item.clone()).collect::<Vec<_>>();
    for sp in &spellings[1..] {
        let t = text(sp);
        let o = run_text(&t, &sigs, &script, &opts);
        acc.evaluations += 1;
        let case = || json!({"base": base_text, "variant": t, "signals": sigs, "script": script});
        if let Some(p) = no_panic(&o) {
            acc.violation(case_seed, "radix", Finding::new(p.signature.clone(), format!("the spelling {sp} panics where the decimal spelling does not: {}", p.detail)), case());
            return;
        }
        if (b.parse.is_ok(), b.bind.is_ok()) != (o.parse.is_ok(), o.bind.is_ok()) {
            acc.violation(
                case_seed,
                "radix",
                Finding::new("layout-changes-verdict", format!("the number {v} is {} in decimal but {} as {sp}", if b.parse.is_ok() { "accepted" } else { "rejected" }, if o.parse.is_ok() { "accepted" } else { "rejected" })),
                case(),
            );
            return;
        }
        if b.parse.is_ok() && items(&b) != items(&o) {
            acc.violation(case_seed, "radix", Finding::new("layout-changes-rows", format!("the number {v} gives other rows as {sp} than in decimal")), case());
            return;
        }
    }
    acc.held += 1;
    acc.event("radix_families_compared", 1);
    acc.tag(if b.parse.is_ok() { "radix_family_accepted" } else { "radix_family_rejected" });
}

pub fn c20(case_seed: u64, tier_variants: usize, acc: &mut Acc) {
    let mut r = Prng::new(case_seed);
    acc.cases += 1;
    if r.chance(20, 1000) {
        return c20_radix_family(case_seed, &mut r, acc);
    }
    let (base, sigs, script, seed) = if r.chance(1, 12) {
        let b = r.pick(&HAZARD_BASES).to_string();
        let first = b.lines().next().unwrap().split(' ').next().unwrap().to_string();
        let sigs = vec![Sig { name: first, bits: 8, kind: SigKind::In(InVal::V(0)) }, Sig { name: "Q".into(), bits: 64, kind: SigKind::Out }];
        (b, sigs, Script { layout: vec![1], values: ValueFn::Unique { salt: 3, narrow: false }, faults: vec![], override_write: false, rebuild_signals: false }, 1u64)
    } else {
        let c = corpus_case(&mut r);
        if !preflight_ok(&c, acc) {
            return;
        }
        (pp::print(&c.program, &c.layout_opts).text, c.signals, c.script, c.rng_seed)
    };
    let opts = RunOpts { max_steps: 300, probe_after_end: 0, stop_at_error: true, seed: Some(seed), continue_on: None };
    let b = run_text(&base, &sigs, &script, &opts);
    acc.evaluations += 1;
    if let Some(p) = no_panic(&b) {
        // panics are C09/C10's subject; here they make the comparison impossible
        let _ = p;
        acc.inconclusive("base panics (C09/C10)");
        return;
    }
    if b.steps.len() >= 300 {
        acc.inconclusive("base too long");
        return;
    }
    let base_norm = reflex::normalised(&base).map(collapse);
    let base_rows = b.steps.iter().filter(|s| matches!(s.item, RealItem::Row(_))).count();
    let hb = crate::prng::hash_bytes(base.as_bytes());
    acc.distinct.insert(hb);
    let mut ok = true;
    for _ in 0..tier_variants {
        let v = relayout(&base, &mut r);
        // certification: same token sequence
        let vn = reflex::normalised(&v.text).map(collapse);
        if vn != base_norm {
            acc.tag("variant_discarded_(token_sequence_changed)");
            if acc.verbose && std::env::var("C20_DEBUG").is_ok() {
                eprintln!("DISCARD base={base:?}\n        var={:?}", v.text);
            }
            continue;
        }
        if v.text == base {
            continue;
        }
        let o = run_text(&v.text, &sigs, &script, &opts);
        acc.evaluations += 1;
        let case = || json!({"base": base, "variant": v.text, "signals": sigs, "script": script});
        // verdicts
        let verdict = |t: &RealTrace| (t.parse.is_ok(), t.bind.is_ok());
        if let Some(p) = no_panic(&o) {
            acc.violation(case_seed, "variant", Finding::new(p.signature.clone(), format!("variant panics where the base does not: {}", p.detail)), case());
            ok = false;
            break;
        }
        if verdict(&b) != verdict(&o) {
            acc.violation(
                case_seed,
                "variant",
                Finding::new("layout-changes-verdict", format!("base parse/bind = {:?} ({:?}), variant = {:?} ({:?})", verdict(&b), b.parse, verdict(&o), o.parse)),
                case(),
            );
            ok = false;
            break;
        }
        let mut f = None;
        if format!("{:?}", b.construct) != format!("{:?}", o.construct) {
            f = Some(Finding::new("layout-changes-constructor", format!("{:?} vs {:?}", b.construct, o.construct)));
        }
        let n = b.steps.len().max(o.steps.len());
        for k in 0..n {
            if f.is_some() {
                break;
            }
            match (b.steps.get(k).map(|s| &s.item), o.steps.get(k).map(|s| &s.item)) {
                (Some(RealItem::Row(x)), Some(RealItem::Row(y))) => {
                    let want_line = v.line_map.get(x.line).copied().unwrap_or(0);
                    if y.line != want_line {
                        f = Some(Finding::new("layout-line-shift", format!("row {k}: base line {}, variant line {}, expected {} after the insertions above it", x.line, y.line, want_line)));
                    } else if x.inputs != y.inputs || x.outputs != y.outputs || x.failing != y.failing {
                        f = Some(Finding::new("layout-changes-row", format!("row {k}: base {:?} vs variant {:?}", x, y)));
                    }
                }
                (Some(x), Some(y)) if x == y => {}
                (x, y) => f = Some(Finding::new("layout-changes-item", format!("item {k}: base {:?} vs variant {:?}", x, y))),
            }
        }
        if let Some(f) = f {
            acc.violation(case_seed, "variant", f, case());
            ok = false;
            break;
        }
        acc.event("variants_compared", 1);
        acc.event("rows_compared", base_rows as u64);
        let rejected_after_header = !b.parse.is_ok() && reflex::header(&base).is_some();
        if v.edits >= 3 && (base_rows >= 2 || rejected_after_header) {
            let h = crate::prng::hash_bytes(v.text.as_bytes());
            acc.nontrivial.insert(h);
            acc.sample(|| json!({"base": base, "variant": v.text, "edits": v.edits}));
        }
        if !b.parse.is_ok() {
            acc.tag("both_rejected");
        }
    }
    if ok {
        acc.held += 1;
    }
}
