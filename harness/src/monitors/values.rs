//! C07 (width reduction) and C08 (expression semantics).

use super::*;
use crate::gen::{self, GenCfg};
use crate::prng::Prng;
use crate::refint::{eval_un, wrapping_eval_bin, RefErr};

// ----------------------------------------------------------------------------------- C07

pub const META_C07: Meta = Meta {
    id: "C07",
    level: "exploration",
    rule: "Enumerated sub-space (complete in both tiers): every width 1..=64 x 420 fixed 64-bit values (0, +-1, 2^k, 2^k+-1, -2^k for all k, MIN, MAX, MIN+1, MAX-1, alternating patterns) plus 2 PRNG values per batch x 5 paths {input, bidirectional-in, output expected, bidirectional `_out` expected, virtual (64 bit)} x entry forms {non-negative literal in 4 radices, parenthesised expression, variable, value read back from a 64-bit device output}. The oracle is direct, not the reference interpreter: want = v if bits == 64 else v & (2^bits - 1) computed in u128, compared with InputEntry.value as received by the device and with OutputResultEntry.expected; Z/X entries must pass through unchanged. Remaining cases: generator profile `width` (widths from {1,2,7,8,16,31,32,33,48,62,63,64}, boundary literals) against the reference; 3% of them are programs with bits(k, e), k in {64, 63, 62, 33, 32}, spread over columns of MIXED widths (inputs, outputs and virtual signals of 1..64 bits) with e = -1, MIN, values with the sign bit set and the boundary values - every column must receive 0 or 1. Non-trivial = the value has bits set at or above `bits`, or bits is 63/64 (counted per program batch, distinct by text).",
    assumptions: &["device-injected values reach expressions unmodified (checked by C04)"],
    quick_cases: 61728,
    thorough_cases: 1001728,
    floor: 5000,
};

pub const C07_BATCHES: u64 = 27;
pub const C07_ENUM: u64 = 64 * C07_BATCHES;

pub fn c07_values() -> Vec<i64> {
    let mut v: Vec<i64> = vec![0, 1, -1, i64::MIN, i64::MAX, i64::MIN + 1, i64::MAX - 1];
    for k in 0..64u32 {
        let p = 1i64.wrapping_shl(k);
        v.push(p);
        v.push(p.wrapping_add(1));
        v.push(p.wrapping_sub(1));
        v.push(p.wrapping_neg());
        v.push(p.wrapping_neg().wrapping_sub(1));
        v.push(p.wrapping_neg().wrapping_add(1));
    }
    v.push(0x5555_5555_5555_5555);
    v.push(0xAAAA_AAAA_AAAA_AAAAu64 as i64);
    v.push(0x0123_4567_89AB_CDEF);
    v.push(0xFEDC_BA98_7654_3210u64 as i64);
    v.push(0x7FFF_FFFF_0000_0001);
    v.push(0x8000_0000_FFFF_FFFFu64 as i64);
    v.sort();
    v.dedup();
    v
}

/// An expression whose value is exactly `v`, spelled without arithmetic hazards.
fn expr_for(v: i64, r: &mut Prng) -> Expr {
    if v >= 0 {
        let rx = *r.pick(&[Radix::Dec, Radix::Hex(false, false), Radix::Hex(true, true), Radix::Bin(false), Radix::Oct]);
        Expr::Num(v, rx)
    } else if v == i64::MIN {
        Expr::Bin(
            BinOp::Sub,
            Box::new(Expr::Un(UnOp::Neg, Box::new(Expr::Num(i64::MAX, Radix::Dec)))),
            Box::new(Expr::Num(1, Radix::Dec)),
        )
    } else if r.chance(1, 2) {
        Expr::Un(UnOp::Neg, Box::new(Expr::Num(-v, Radix::Dec)))
    } else {
        // ~(-v-1) == v
        Expr::Un(UnOp::BitNot, Box::new(Expr::Num(-(v + 1), Radix::Hex(false, true))))
    }
}

fn direct_mask(v: i64, bits: usize) -> i64 {
    if bits >= 64 {
        v
    } else {
        ((v as u64 as u128) & ((1u128 << bits) - 1)) as u64 as i64
    }
}

pub fn c07(index: u64, case_seed: u64, acc: &mut Acc) {
    if index >= C07_ENUM {
        return c07_random(case_seed, acc);
    }
    acc.cases += 1;
    let w = (index % 64 + 1) as usize;
    let batch = (index / 64) as usize;
    let all = c07_values();
    let per = all.len().div_ceil(C07_BATCHES as usize);
    let mut vals: Vec<i64> = all.iter().skip(batch * per).take(per).copied().collect();
    let mut r = Prng::new(case_seed);
    vals.push(r.next_u64() as i64);
    vals.push(r.next_u64() as i64);
    // signals: I in(w), B bidir(w), O out(w), Q out(64, the value source)
    let sigs = vec![
        Sig { name: "I".into(), bits: w, kind: SigKind::In(InVal::V(0)) },
        Sig { name: "B".into(), bits: w, kind: SigKind::Bidir(InVal::Z) },
        Sig { name: "O".into(), bits: w, kind: SigKind::Out },
        Sig { name: "Q".into(), bits: 64, kind: SigKind::Out },
    ];
    let header: Vec<String> = ["I", "B", "O", "B_out", "V"].iter().map(|s| s.to_string()).collect();
    let mut items = vec![Item::Declare("V".into(), Expr::Ident("Q".into()))];
    // plan rows: (value, form). form 3 (device) must follow a checked call that answered the value.
    let mut plan: Vec<(i64, u8)> = vec![];
    for &v in &vals {
        if v >= 0 {
            plan.push((v, 0));
        }
        plan.push((v, 1));
        plan.push((v, 2));
        plan.push((v, 3));
    }
    // device table: call c answers Q = the value that row c+1 (plan index c) wants to read
    // back (form 3); O and B get unrelated values.
    let mut table: Vec<Vec<OutVal>> = vec![];
    let mut id = 0usize;
    let mut rows_meta: Vec<i64> = vec![];
    for (k, &(v, form)) in plan.iter().enumerate() {
        let e = |r: &mut Prng| expr_for(v, r);
        let entry = |r: &mut Prng, items: &mut Vec<Item>| -> Entry {
            match form {
                0 => Entry::Lit(v, *r.pick(&[Radix::Dec, Radix::Hex(false, true), Radix::Bin(true), Radix::Oct])),
                1 => Entry::Paren(e(r)),
                2 => {
                    let name = format!("x{k}");
                    items.push(Item::Let(name.clone(), e(r)));
                    Entry::Paren(Expr::Ident(name))
                }
                _ => Entry::Paren(Expr::Ident("Q".into())),
            }
        };
        let first = entry(&mut r, &mut items);
        let es: Vec<Entry> = (0..5)
            .map(|c| if c == 0 { first.clone() } else { match (&first, form) {
                (Entry::Paren(Expr::Ident(n)), 2) => Entry::Paren(Expr::Ident(n.clone())),
                _ => entry(&mut r, &mut vec![]),
            } })
            .collect();
        id += 1;
        items.push(Item::Row(id, es));
        rows_meta.push(v);
        // answer of the call *preceding* this row = call index k (constructor is call 0)
        table.push(vec![OutVal::V(v ^ 0x55), OutVal::V(7), OutVal::V(v)]);
    }
    // a final Z/X pass-through row
    id += 1;
    items.push(Item::Row(
        id,
        vec![Entry::Z(false), Entry::Z(true), Entry::Z(false), Entry::X(false), Entry::Z(false)],
    ));
    table.push(vec![OutVal::V(0), OutVal::V(0), OutVal::V(0)]);
    table.push(vec![OutVal::V(0), OutVal::V(0), OutVal::V(0)]);
    let case = Case {
        program: Program { header, items },
        signals: sigs,
        script: Script {
            layout: vec![2, 1, 3],
            values: ValueFn::Table(table),
            faults: vec![],
            override_write: false, rebuild_signals: false
        },
        layout_opts: crate::pp::Layout::plain(),
        rng_seed: 1,
    };
    let pr = pp::print(&case.program, &case.layout_opts);
    let real = run_text(
        &pr.text,
        &case.signals,
        &case.script,
        &RunOpts { max_steps: plan.len() + 4, probe_after_end: 0, stop_at_error: true, seed: Some(1), continue_on: None },
    );
    count_events(acc, &real);
    let h = case_hash(&case, &pr);
    acc.distinct.insert(h);
    let mut finding = first_some(vec![accepted(&real), no_panic(&real)]);
    let mut nontrivial = w >= 63;
    if finding.is_none() {
        if real.steps.len() < plan.len() + 2 {
            finding = Some(Finding::new("stream-short", format!("{} steps for {} planned rows", real.steps.len(), plan.len() + 1)));
        }
    }
    if finding.is_none() {
        'outer: for (k, &(v, form)) in plan.iter().enumerate() {
            let RealItem::Row(row) = &real.steps[k].item else {
                finding = Some(Finding::new("item-kind", format!("row {k} (value {v}, form {form}): observed {:?}", real.steps[k].item)));
                break;
            };
            let want_w = direct_mask(v, w);
            if want_w != v {
                nontrivial = true;
            }
            // device side
            let call = &real.calls[real.steps[k].calls.0];
            for (ci, name, val, _) in &call.inputs {
                let _ = ci;
                if *val != InVal::V(want_w) {
                    finding = Some(Finding::new(
                        "input-width-reduction",
                        format!("width {w}, value {v} (form {form}): device received {name}={val:?}, want {want_w}"),
                    ));
                    break 'outer;
                }
            }
            for (si, _out, exp, _, _) in &row.outputs {
                let s = &real.signals[*si];
                let want = match s.name.as_str() {
                    "O" | "B" => Some(ExpVal::V(want_w)),
                    "V" => Some(ExpVal::V(v)),
                    "Q" => Some(ExpVal::X),
                    _ => None,
                };
                if Some(*exp) != want {
                    finding = Some(Finding::new(
                        "expected-width-reduction",
                        format!("width {w}, value {v} (form {form}): expected for {} = {exp:?}, want {want:?}", s.name),
                    ));
                    break 'outer;
                }
            }
            if row.inputs.iter().any(|i| i.1 != InVal::V(want_w)) {
                finding = Some(Finding::new("input-width-reduction", format!("width {w}, value {v}: row.inputs {:?}", row.inputs)));
                break;
            }
            acc.event("width_value_path_checks", 5);
        }
    }
    if finding.is_none() {
        // Z / X pass through unchanged
        match &real.steps[plan.len()].item {
            RealItem::Row(row) => {
                let ok_in = row.inputs.iter().all(|i| i.1 == InVal::Z);
                let ok_exp = row.outputs.iter().all(|o| {
                    let n = real.signals[o.0].name.as_str();
                    match n {
                        "O" | "V" => o.2 == ExpVal::Z,
                        "B" => o.2 == ExpVal::X,
                        _ => o.2 == ExpVal::X,
                    }
                });
                if !ok_in || !ok_exp {
                    finding = Some(Finding::new("zx-passthrough", format!("width {w}: Z/X row came out as {row:?}")));
                }
            }
            other => finding = Some(Finding::new("item-kind", format!("Z/X row: {other:?}"))),
        }
    }
    if let Some(f) = finding {
        acc.violation(case_seed, "enum", f, case_json(&case, &pr));
        return;
    }
    acc.held += 1;
    acc.tag(&format!("width_{:02}", w));
    if nontrivial {
        acc.nontrivial.insert(h);
        acc.sample(|| json!({"width": w, "values": rows_meta.iter().take(6).collect::<Vec<_>>(), "text_head": pr.text.lines().take(8).collect::<Vec<_>>() }));
    }
}

pub fn profile_width() -> GenCfg {
    let mut c = GenCfg::base();
    c.widths = 2;
    c.big_values = true;
    c.max_depth = 2;
    c.n_bidir = (0, 2);
    c.n_declares = (0, 2);
    c.w_in = [45, 45, 3, 4, 3];
    c
}

/// `bits(k, e)` over up to 64 columns whose signals are NOT all one bit wide (inputs, outputs,
/// virtual signals, widths 1..64): every column gets one bit of `e` - 0 or 1 whatever the width
/// of its signal and whichever bit of `e` it is (the sign bit included).
fn c07_wide_bits_case(r: &mut Prng) -> Case {
    let k = *r.pick(&[64usize, 64, 64, 63, 62, 33, 32]);
    let extra = r.below(3);
    let mut sigs: Vec<Sig> = vec![];
    let mut header = vec![];
    let mut items = vec![];
    let n_virt = r.below(3);
    for i in 0..k + extra {
        let bits = *r.pick(&[1usize, 1, 2, 4, 8, 16, 33, 63, 64]);
        if i < n_virt * 7 && i % 7 == 0 {
            // a virtual signal column (64 bit by definition)
            let name = format!("V{i}");
            items.push(Item::Declare(name.clone(), Expr::Num(i as i64, Radix::Dec)));
            header.push(name);
        } else if r.chance(1, 2) {
            sigs.push(Sig { name: format!("I{i}"), bits, kind: SigKind::In(InVal::V(0)) });
            header.push(format!("I{i}"));
        } else {
            sigs.push(Sig { name: format!("O{i}"), bits, kind: SigKind::Out });
            header.push(format!("O{i}"));
        }
    }
    let vals = c07_values();
    for id in 1..=4usize {
        let v = match r.below(4) {
            0 => -1,
            1 => i64::MIN,
            2 => r.next_u64() as i64 | i64::MIN,
            _ => *r.pick(&vals),
        };
        let mut es = vec![];
        let lead = r.below(extra + 1);
        for _ in 0..lead {
            es.push(Entry::Lit(r.range(0, 1), Radix::Dec));
        }
        es.push(Entry::Bits(k as u8, expr_for(v, r)));
        for _ in lead..extra {
            es.push(Entry::Lit(r.range(0, 1), Radix::Dec));
        }
        items.push(Item::Row(id, es));
    }
    let outs: Vec<usize> = (0..sigs.len()).filter(|&i| sigs[i].is_output()).collect();
    Case {
        program: Program { header, items },
        signals: sigs,
        script: Script { layout: outs, values: ValueFn::Small { salt: 5, modulus: 2 }, faults: vec![], override_write: r.chance(1, 2), rebuild_signals: false },
        layout_opts: crate::pp::Layout::plain(),
        rng_seed: 1,
    }
}

fn c07_random(case_seed: u64, acc: &mut Acc) {
    let mut r = Prng::new(case_seed);
    let cfg = profile_width();
    let wide_bits = r.chance(30, 1000);
    let mut case = if wide_bits { c07_wide_bits_case(&mut r) } else { gen::generate(&mut r, &cfg) };
    // a driver refusal now and then: the vectors handed over after it must be reduced like all others
    super::dynamic::maybe_fault(&mut case, &mut r, 120);
    if wide_bits {
        acc.tag("bits_over_up_to_64_columns_of_mixed_widths");
    }
    acc.cases += 1;
    let Some(ran) = standard_run(&case, acc, None) else { return };
    let h = case_hash(&case, &ran.pr);
    acc.distinct.insert(h);
    let f = first_some(vec![
        accepted(&ran.real),
        diff_items(&ran.pr, &ran.rf, &ran.real, Aspects { inputs: true, expected: true, kinds: true, ..Default::default() }),
    ]);
    if let Some(f) = f {
        acc.violation(case_seed, "gen", f, case_json(&case, &ran.pr));
        return;
    }
    acc.held += 1;
    acc.event("masked_values_compared", ran.rf.stats.masked_values as u64);
    if ran.rf.stats.masked_values > 0 || ran.rf.stats.wide_signals > 0 {
        acc.nontrivial.insert(h);
    }
}

// ----------------------------------------------------------------------------------- C08

pub const META_C08: Meta = Meta {
    id: "C08",
    level: "exploration",
    rule: "Each case is a program of 6 expression trees (depth 1-6 over all 16 binary and 3 unary operators, ite, literals in every radix, variables bound to boundary values, 64-bit device outputs scripted to 0, +-1, MIN, MAX, 2^k, 63, 64, 65; weights favour same-level non-commutative chains, unary under binary and adjacent precedence levels). Every tree is observed through three public views of its full i64 value: vars() after `let t = expr;`, the expected value of a 64-bit output column and of a virtual-signal column holding `(expr)`. The text is produced from the tree with the C08 precedence table, once with minimal and once with redundant parentheses; both must give the value the reference evaluator computes on the tree (wrapping + - * neg, shifts by count&63 with arithmetic >>, truncating / %, comparisons and ! -> 0/1, lazy ite whose unselected arm may read an output answered Z). Trees dividing by zero are left to C10 (dropped before the run, counted). Shard 0 enumerates all op pairs/triples x shapes on fixed valuations. One case in six is made of simplification baits: 30 templates that invite an algebraic rewrite which is wrong at the edges of i64 or drops an evaluation (-a / -b, (a*b)/b, x OP x, a*0, a/-1, a%-1, doubled unary operators, shifts by 0 / 62..65 / 127 / 128 / negative counts, ite with a literal condition, a / 2^k ...) over variables and outputs bound to MIN, MAX, -1, -2, 2, 0, 1, MIN+1, 2^62; 6% of the inner nodes of ordinary trees are baits too. 4% of the baits are runs of 9-70 directly stacked prefix operators. Non-trivial = tree with >= 3 operators from >= 2 precedence levels or a same-level non-commutative chain; evidence lists how many (parent-op, child-op, side) pairs were exercised.",
    assumptions: &["reference evaluator (60 lines, wrapping_* semantics as stated in C08)", "printer inserts parentheses per the C08 table; a printer bug would show as disagreement, not silence"],
    quick_cases: 60000,
    thorough_cases: 1200000,
    floor: 5000,
};

const EDGE_VALS: [i64; 16] = [0, 1, -1, 2, 3, 5, 7, 63, 64, 65, i64::MIN, i64::MAX, 1 << 32, -(1 << 31), 0x7FFF_FFFF, 255];

struct EG<'a> {
    r: &'a mut Prng,
    vars: Vec<String>,
    outs: Vec<String>,
    zq: bool,
    /// per-mille of inner nodes that are a simplification bait
    bait_rate: u32,
}

fn level_ops(l: u8) -> Vec<BinOp> {
    ALL_BINOPS.iter().copied().filter(|o| o.level() == l).collect()
}

impl<'a> EG<'a> {
    fn leaf(&mut self, in_ite: bool) -> Expr {
        match self.r.below(10) {
            0..=2 => Expr::Ident(self.r.pick(&self.vars).clone()),
            3 | 4 => Expr::Ident(self.r.pick(&self.outs).clone()),
            5 if in_ite && self.zq => Expr::Ident("ZQ".into()),
            _ => {
                let v = match self.r.below(5) {
                    0 => *self.r.pick(&EDGE_VALS),
                    1 => self.r.range(0, 9),
                    2 => self.r.range(0, 70),
                    3 => self.r.interesting_i64(),
                    _ => self.r.range(1, 3),
                };
                let v = if v < 0 { v.wrapping_neg().max(0) } else { v };
                let rx = *self.r.pick(&[
                    Radix::Dec, Radix::Dec, Radix::Dec, Radix::Hex(false, false), Radix::Hex(true, true),
                    Radix::Hex(false, true), Radix::Bin(false), Radix::Bin(true), Radix::Oct,
                ]);
                Expr::Num(v, rx)
            }
        }
    }
    /// Shapes that invite an algebraic simplification (constant folding, cancelling a pair of
    /// negations, x OP x, strength reduction) which is wrong at the edges of i64 or drops a read
    /// (added after seeded changes T-C08-agent17-2, T-C17-agent17-8 and T-C04-agent17-5)
    fn bait(&mut self, depth: usize, in_ite: bool) -> Expr {
        let d = depth.saturating_sub(1).min(2);
        let mut a = self.tree(d, in_ite);
        let mut b = self.tree(d, in_ite);
        if self.r.chance(600, 1000) {
            a = self.leaf(in_ite);
        }
        if self.r.chance(600, 1000) {
            b = self.leaf(in_ite);
        }
        let bx = |e: Expr| Box::new(e);
        let bin = |o: BinOp, l: Expr, r: Expr| Expr::Bin(o, Box::new(l), Box::new(r));
        let neg = |e: Expr| Expr::Un(UnOp::Neg, Box::new(e));
        let num = |v: i64| Expr::Num(v, Radix::Dec);
        let pow2 = 1i64 << *self.r.pick(&[1u32, 1, 2, 3, 8, 31, 32, 62]);
        let cnt = *self.r.pick(&[0i64, 1, 62, 63, 64, 65, 127, 128]);
        let cmp = *self.r.pick(&[BinOp::Eq, BinOp::Ne, BinOp::Lt, BinOp::Gt, BinOp::Le, BinOp::Ge]);
        let same = *self.r.pick(&[
            BinOp::Sub, BinOp::Xor, BinOp::Eq, BinOp::Ne, BinOp::Lt, BinOp::Gt, BinOp::Le, BinOp::Ge, BinOp::And, BinOp::Or,
            BinOp::Div, BinOp::Rem, BinOp::Add, BinOp::Mul, BinOp::Shl, BinOp::Shr,
        ]);
        let md = *self.r.pick(&[BinOp::Mul, BinOp::Div, BinOp::Rem]);
        let pm = *self.r.pick(&[BinOp::Add, BinOp::Sub]);
        if self.r.chance(40, 1000) {
            // a long run of directly stacked prefix operators (past 8 / 16 / 32 / 64 of them)
            // (after seeded change W-C08-agent20-4: operators packed two bits each into a u32)
            let n = *self.r.pick(&[9usize, 15, 16, 17, 18, 20, 31, 32, 33, 40, 63, 64, 65, 70]);
            let mut e = a;
            for _ in 0..n {
                let u = *self.r.pick(&[UnOp::Neg, UnOp::Not, UnOp::BitNot, UnOp::BitNot]);
                e = Expr::Un(u, bx(e));
            }
            return e;
        }
        match self.r.below(30) {
            0 | 1 => bin(BinOp::Div, neg(a), neg(b)),
            2 => bin(BinOp::Rem, neg(a), neg(b)),
            3 => bin(BinOp::Mul, neg(a), neg(b)),
            4 => neg(bin(md, a, b)),
            5 => bin(md, a, neg(b)),
            6 => bin(md, neg(a), b),
            7 => bin(BinOp::Div, bin(BinOp::Mul, a, b.clone()), b),
            8 => bin(BinOp::Mul, bin(BinOp::Div, a, b.clone()), b),
            9 => bin(BinOp::Sub, bin(BinOp::Add, a, b.clone()), b),
            10 => bin(BinOp::Shr, bin(BinOp::Shl, a, b.clone()), b),
            11 => bin(BinOp::Shl, bin(BinOp::Shr, a, b.clone()), b),
            12 | 13 | 14 => bin(same, a.clone(), a),
            15 => match self.r.below(4) {
                0 => bin(BinOp::Mul, a, num(0)),
                1 => bin(BinOp::Mul, num(0), a),
                2 => bin(BinOp::And, a, num(0)),
                _ => bin(BinOp::Mul, a, neg(num(1))),
            },
            16 => match self.r.below(6) {
                0 => bin(BinOp::Div, num(0), a),
                1 => bin(BinOp::Rem, num(0), a),
                2 => bin(BinOp::Rem, a, num(1)),
                3 => bin(BinOp::Div, a, num(1)),
                4 => bin(BinOp::Rem, a, neg(num(1))),
                _ => bin(BinOp::Div, a, neg(num(1))),
            },
            17 => {
                let u = *self.r.pick(&[UnOp::Neg, UnOp::Not, UnOp::BitNot]);
                Expr::Un(u, bx(Expr::Un(u, bx(a))))
            }
            18 => Expr::Un(UnOp::Not, bx(bin(cmp, a, b))),
            19 => bin(*self.r.pick(&[BinOp::Shl, BinOp::Shr]), a, num(cnt)),
            20 => bin(*self.r.pick(&[BinOp::Shl, BinOp::Shr]), a, neg(num(cnt))),
            21 => Expr::Ite(bx(num(self.r.below(2) as i64)), bx(a), bx(b)),
            22 => Expr::Ite(bx(b), bx(a.clone()), bx(a)),
            23 => bin(BinOp::Sub, num(0), a),
            24 => bin(pm, a, neg(b)),
            25 => bin(cmp, bin(BinOp::Sub, a, b), num(0)),
            26 => bin(BinOp::Div, a, num(pow2)),
            27 => bin(BinOp::Rem, a, num(pow2)),
            28 => bin(BinOp::Mul, a, num(pow2)),
            _ => neg(bin(pm, a, b)),
        }
    }

    fn tree(&mut self, depth: usize, in_ite: bool) -> Expr {
        if depth == 0 || self.r.chance(180, 1000) {
            return self.leaf(in_ite);
        }
        if self.r.chance(self.bait_rate, 1000) {
            return self.bait(depth, in_ite);
        }
        match self.r.below(100) {
            0..=13 => {
                let op = *self.r.pick(&[UnOp::Neg, UnOp::Not, UnOp::BitNot]);
                Expr::Un(op, Box::new(self.tree(depth - 1, in_ite)))
            }
            14..=19 => {
                let c = self.tree(depth - 1, in_ite);
                let a = self.tree(depth - 1, true);
                let b = self.tree(depth - 1, true);
                Expr::Ite(Box::new(c), Box::new(a), Box::new(b))
            }
            20..=44 => {
                // chain of same-level operators with random association
                let l = 1 + self.r.below(8) as u8;
                let ops = level_ops(l);
                let k = 2 + self.r.below(3);
                let mut e = self.tree(depth.saturating_sub(2), in_ite);
                for _ in 0..k {
                    let op = *self.r.pick(&ops);
                    let o = self.tree(depth.saturating_sub(2), in_ite);
                    e = if self.r.chance(650, 1000) {
                        Expr::Bin(op, Box::new(e), Box::new(o))
                    } else {
                        Expr::Bin(op, Box::new(o), Box::new(e))
                    };
                }
                e
            }
            45..=64 => {
                // adjacent precedence levels
                let l = 1 + self.r.below(7) as u8;
                let o1 = *self.r.pick(&level_ops(l));
                let o2 = *self.r.pick(&level_ops(l + 1));
                let a = self.tree(depth - 1, in_ite);
                let b = self.tree(depth.saturating_sub(2), in_ite);
                let c = self.tree(depth.saturating_sub(2), in_ite);
                match self.r.below(4) {
                    0 => Expr::Bin(o1, Box::new(Expr::Bin(o2, Box::new(a), Box::new(b))), Box::new(c)),
                    1 => Expr::Bin(o1, Box::new(a), Box::new(Expr::Bin(o2, Box::new(b), Box::new(c)))),
                    2 => Expr::Bin(o2, Box::new(Expr::Bin(o1, Box::new(a), Box::new(b))), Box::new(c)),
                    _ => Expr::Bin(o2, Box::new(a), Box::new(Expr::Bin(o1, Box::new(b), Box::new(c)))),
                }
            }
            _ => {
                let op = *self.r.pick(&ALL_BINOPS);
                let a = self.tree(depth - 1, in_ite);
                let b = self.tree(depth - 1, in_ite);
                Expr::Bin(op, Box::new(a), Box::new(b))
            }
        }
    }
}

/// Standalone evaluation of a tree over a valuation; None = hazard (division by zero)
fn eval_tree(e: &Expr, env: &dyn Fn(&str) -> Option<OutVal>) -> Result<i64, RefErr> {
    Ok(match e {
        Expr::Num(v, _) => *v,
        Expr::Group(x) => eval_tree(x, env)?,
        Expr::Ident(n) => match env(n) {
            Some(OutVal::V(v)) => v,
            Some(_) => return Err(RefErr::ReadZX(n.clone())),
            None => return Err(RefErr::Unassigned(n.clone())),
        },
        Expr::Un(op, x) => eval_un(*op, eval_tree(x, env)?),
        Expr::Bin(op, a, b) => {
            let l = eval_tree(a, env)?;
            let r = eval_tree(b, env)?;
            wrapping_eval_bin(*op, l, r)?
        }
        Expr::Ite(c, a, b) => {
            if eval_tree(c, env)? != 0 {
                eval_tree(a, env)?
            } else {
                eval_tree(b, env)?
            }
        }
        Expr::Random(_) | Expr::SignExt(..) => return Err(RefErr::NotImplemented("n/a".into())),
    })
}

fn tree_nontrivial(e: &Expr) -> bool {
    let mut levels = std::collections::HashSet::new();
    let mut nops = 0;
    let mut chain = false;
    e.walk(&mut |x| {
        if let Expr::Bin(op, l, r) = x {
            nops += 1;
            levels.insert(op.level());
            for ch in [l, r] {
                if let Expr::Bin(o2, ..) = &**ch {
                    if o2.level() == op.level()
                        && matches!(op, BinOp::Sub | BinOp::Div | BinOp::Rem | BinOp::Shl | BinOp::Shr | BinOp::Lt | BinOp::Gt | BinOp::Le | BinOp::Ge | BinOp::Eq | BinOp::Ne)
                    {
                        chain = true;
                    }
                }
            }
        } else if let Expr::Un(..) = x {
            nops += 1;
        }
    });
    (nops >= 3 && levels.len() >= 2) || chain
}

fn tag_pairs(e: &Expr, acc: &mut Acc) {
    e.walk(&mut |x| {
        if let Expr::Bin(op, l, r) = x {
            for (side, ch) in [("L", l), ("R", r)] {
                match &**ch {
                    Expr::Bin(o2, ..) => acc.tag(&format!("pair:{}:{}:{}", op.text(), o2.text(), side)),
                    Expr::Un(u, _) => acc.tag(&format!("pair:{}:u{}:{}", op.text(), u.text(), side)),
                    _ => {}
                }
            }
        }
    });
}

pub fn c08_program(trees: &[Expr], var_vals: &[(String, i64)], out_vals: &[(String, OutVal)], r: &mut Prng) -> Case {
    // signals: A in(1), P/R/S 64-bit outputs providing values, ZQ always Z, Q64 expected column
    let mut sigs = vec![Sig { name: "A".into(), bits: 1, kind: SigKind::In(InVal::V(0)) }];
    for (n, _) in out_vals {
        sigs.push(Sig { name: n.clone(), bits: 64, kind: SigKind::Out });
    }
    sigs.push(Sig { name: "Q64".into(), bits: 64, kind: SigKind::Out });
    let header: Vec<String> = vec!["A".into(), "Q64".into(), "VV".into()];
    let mut items = vec![Item::Declare("VV".into(), Expr::Num(0, Radix::Dec))];
    for (n, v) in var_vals {
        items.push(Item::Let(n.clone(), expr_for(*v, r)));
    }
    for (k, t) in trees.iter().enumerate() {
        items.push(Item::Let(format!("t{k}"), t.clone()));
        items.push(Item::Row(k + 1, vec![Entry::Lit((k & 1) as i64, Radix::Dec), Entry::Paren(t.clone()), Entry::Paren(t.clone())]));
    }
    let layout: Vec<usize> = (1..=out_vals.len()).collect();
    let row: Vec<OutVal> = out_vals.iter().map(|(_, v)| *v).collect();
    Case {
        program: Program { header, items },
        signals: sigs,
        script: Script { layout, values: ValueFn::Table(vec![row]), faults: vec![], override_write: false , rebuild_signals: false},
        layout_opts: crate::pp::Layout::plain(),
        rng_seed: 1,
    }
}

fn c08_check(case: &Case, trees: &[Expr], case_seed: u64, variant: &str, acc: &mut Acc) {
    acc.cases += 1;
    let mut any_nt = false;
    for redundant in [false, true] {
        let mut c = case.clone();
        c.layout_opts.redundant_parens = redundant;
        c.layout_opts.tight = redundant && case_seed & 1 == 1;
        let Some(ran) = standard_run(&c, acc, None) else { return };
        let f = first_some(vec![
            accepted(&ran.real),
            diff_items(&ran.pr, &ran.rf, &ran.real, Aspects { expected: true, vars: true, kinds: true, ..Default::default() }),
        ]);
        if let Some(f) = f {
            acc.violation(case_seed, variant, f, case_json(&c, &ran.pr));
            return;
        }
        acc.event("expression_values_compared_x3_views", ran.rf.stats.rows as u64);
        if !redundant {
            let h = case_hash(&c, &ran.pr);
            acc.distinct.insert(h);
            for t in trees {
                tag_pairs(t, acc);
                if tree_nontrivial(t) {
                    any_nt = true;
                }
            }
            if any_nt {
                acc.nontrivial.insert(h);
                acc.sample(|| sample_json(&c, &ran));
            }
            if ran.rf.items.iter().any(|i| matches!(i, crate::refint::RefItem::Err(RefErr::ReadZX(_)))) {
                acc.tag("selected_ite_arm_reads_Z_error_prescribed");
            }
        }
    }
    acc.held += 1;
}

pub fn c08(case_seed: u64, acc: &mut Acc) {
    let mut r = Prng::new(case_seed);
    // one case in six is made of simplification baits over the very edges of i64
    let baits = r.chance(1, 6);
    const BAIT_VALS: [i64; 10] = [i64::MIN, i64::MIN, i64::MAX, -1, -2, 2, 0, 1, i64::MIN + 1, 1 << 62];
    let var_vals: Vec<(String, i64)> = ["x", "y", "z", "w"]
        .iter()
        .enumerate()
        .map(|(i, n)| {
            let v = if baits {
                *r.pick(&BAIT_VALS)
            } else if r.chance(1, 2) {
                [3, 5, 7, 11][i]
            } else {
                *r.pick(&EDGE_VALS)
            };
            (n.to_string(), v)
        })
        .collect();
    let mut out_vals: Vec<(String, OutVal)> = ["P", "R", "S"]
        .iter()
        .enumerate()
        .map(|(i, n)| {
            let v = if baits {
                *r.pick(&BAIT_VALS)
            } else if r.chance(1, 2) {
                [13, 17, 19][i]
            } else {
                r.interesting_i64()
            };
            (n.to_string(), OutVal::V(v))
        })
        .collect();
    if baits {
        acc.tag("simplification_baits_over_edge_values");
    }
    out_vals.push(("ZQ".into(), OutVal::Z));
    let vv = var_vals.clone();
    let ov = out_vals.clone();
    let env = move |n: &str| -> Option<OutVal> {
        vv.iter().find(|(k, _)| k == n).map(|(_, v)| OutVal::V(*v)).or_else(|| ov.iter().find(|(k, _)| k == n).map(|(_, v)| *v))
    };
    let mut trees = vec![];
    let mut zx_tree = None;
    let mut tries = 0;
    // now and then a long program: 40 trees, each wrapped in ite(..) calls - well over a hundred
    // function calls in one test (state that a parser might carry from one expression to the next)
    let long = r.chance(20, 1000);
    let want = if long { 40 } else { 6 };
    if long {
        acc.tag("long_program_100+_function_calls");
    }
    while trees.len() < want && tries < 60 + 10 * want {
        tries += 1;
        let d = 1 + r.below(6);
        let t = {
            let mut g = EG { r: &mut r, vars: var_vals.iter().map(|v| v.0.clone()).collect(), outs: vec!["P".into(), "R".into(), "S".into()], zq: true, bait_rate: if baits { 0 } else { 60 } };
            if baits {
                g.bait(d, false)
            } else {
                g.tree(d, false)
            }
        };
        let t = if long {
            Expr::Ite(Box::new(Expr::Num((tries & 1) as i64, Radix::Dec)), Box::new(t.clone()), Box::new(Expr::Ite(Box::new(Expr::Ident("x".into())), Box::new(t), Box::new(Expr::Num(1, Radix::Dec)))))
        } else {
            t
        };
        match eval_tree(&t, &env) {
            Ok(_) => {
                if t.contains(&|x| matches!(x, Expr::Ident(n) if n == "ZQ")) {
                    acc.tag("unselected_ite_arm_reads_Z");
                }
                trees.push(t)
            }
            Err(RefErr::DivZero) => acc.tag("dropped_division_by_zero_(C10)"),
            Err(RefErr::ReadZX(_)) => zx_tree = Some(t),
            Err(_) => {}
        }
    }
    if let Some(t) = zx_tree {
        // the selected arm reads Z: the row must be an error item; keep it last
        trees.push(t);
    }
    if trees.is_empty() {
        acc.inconclusive("no hazard-free tree");
        return;
    }
    let case = c08_program(&trees, &var_vals, &out_vals, &mut r);
    c08_check(&case, &trees, case_seed, "gen", acc);
}

pub fn c08_exhaustive(tier: &str, acc: &mut Acc) -> Value {
    let var_vals: Vec<(String, i64)> = vec![("x".into(), 3), ("y".into(), 5), ("z".into(), -7), ("w".into(), 2)];
    let out_vals: Vec<(String, OutVal)> = vec![("P".into(), OutVal::V(13)), ("R".into(), OutVal::V(i64::MIN)), ("S".into(), OutVal::V(1)), ("ZQ".into(), OutVal::Z)];
    let vv = var_vals.clone();
    let ov = out_vals.clone();
    let env = move |n: &str| -> Option<OutVal> {
        vv.iter().find(|(k, _)| k == n).map(|(_, v)| OutVal::V(*v)).or_else(|| ov.iter().find(|(k, _)| k == n).map(|(_, v)| *v))
    };
    let leaves = [Expr::Ident("x".into()), Expr::Ident("y".into()), Expr::Ident("z".into()), Expr::Ident("P".into())];
    let mut all: Vec<Expr> = vec![];
    let b = |o: BinOp, l: Expr, r: Expr| Expr::Bin(o, Box::new(l), Box::new(r));
    for o1 in ALL_BINOPS {
        for o2 in ALL_BINOPS {
            let [a, c, d, _] = leaves.clone();
            all.push(b(o1, b(o2, a.clone(), c.clone()), d.clone()));
            all.push(b(o1, a.clone(), b(o2, c.clone(), d.clone())));
            for u in [UnOp::Neg, UnOp::Not, UnOp::BitNot] {
                all.push(b(o1, Expr::Un(u, Box::new(a.clone())), b(o2, c.clone(), d.clone())));
                all.push(Expr::Un(u, Box::new(b(o1, a.clone(), b(o2, c.clone(), d.clone())))));
                all.push(b(o1, b(o2, a.clone(), Expr::Un(u, Box::new(c.clone()))), d.clone()));
            }
            if tier == "thorough" {
                for o3 in ALL_BINOPS {
                    let [a, c, d, e] = leaves.clone();
                    all.push(b(o1, b(o2, b(o3, a.clone(), c.clone()), d.clone()), e.clone()));
                    all.push(b(o1, b(o2, a.clone(), b(o3, c.clone(), d.clone())), e.clone()));
                    all.push(b(o1, b(o2, a.clone(), c.clone()), b(o3, d.clone(), e.clone())));
                    all.push(b(o1, a.clone(), b(o2, b(o3, c.clone(), d.clone()), e.clone())));
                    all.push(b(o1, a.clone(), b(o2, c.clone(), b(o3, d.clone(), e.clone()))));
                }
            }
        }
    }
    let total = all.len();
    let ok: Vec<Expr> = all.into_iter().filter(|t| eval_tree(t, &env).is_ok()).collect();
    let kept = ok.len();
    let mut r = Prng::new(99);
    for (k, chunk) in ok.chunks(12).enumerate() {
        let case = c08_program(chunk, &var_vals, &out_vals, &mut r);
        c08_check(&case, chunk, k as u64, "exhaustive", acc);
    }
    json!({"enumerated_trees": total, "hazard_free_trees_run": kept, "valuation": "x=3 y=5 z=-7 P=13", "shapes": "all op pairs x {left,right nesting} x unary at 3 positions; thorough: all op triples x 5 shapes"})
}
