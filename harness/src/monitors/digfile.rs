//! C16 — loading a .dig file is total and recovers the circuit interface and its tests.

use super::*;
use crate::prng::Prng;
use crate::xmlgen::*;
use digital_test_runner::{dig, InputValue, ParsedTestCase, SignalType};
use std::str::FromStr;

pub const META_C16: Meta = Meta {
    id: "C16",
    level: "exploration",
    rule: "Faithful part (a third of the non-pin elements carry no <elementName> at all): a generated circuit description {0-12 elements In/Clock/Out/other with labels from an adversarial pool (C, C_out, D, D_out, A_out_out, labels with spaces, &, <, non-ASCII, the format's own attribute keys Bits / InDefault / Label / Testdata, omitted), widths {absent,1,8,64,0,junk}, defaults {absent, number, negative, z=true, junk}; 0-5 Testcase elements with duplicate / absent labels and sources whose headers reference pins, `<pin>_out` forms and sometimes undeclared names} is rendered to .dig XML (entry order shuffled, unrelated entries and comments interleaved, indentation and CRLF varied, entities or CDATA) and parsed. Oracle from the description alone: Err iff some test has no header line / duplicate header names / a header name that is neither a pin label nor `<In/Clock pin>_out`; otherwise Ok with the multiset of signals equal to the description (width 1 if unspecified, default number / Z / 0), S bidirectional iff some header uses S_out, S is an In/Clock pin and no pin is labelled S_out, and test cases = (label or \"(unnamed)\", source verbatim) in document order; for every i load_test(i) must equal from_str(source_i).with_signals(file.signals) (both Ok and ==, or both Err with the same text), load_test_by_name = first test with that label, out-of-range index / unknown name = Err; 15% of the documents are also parsed through str::parse::<dig::File>() and 3% written to a scratch file and loaded through dig::File::open - same Ok/Err verdict, same signals and tests; the same path is then rewritten with ANOTHER document padded to the same length, its modification time set back, and opened again: open must return what the file holds now. Totality part: 6 corruptions of each rendered document (truncation, tag deletion, swapped closers, entity garbage, CRLF, BOM, non-ASCII) plus corruptions of the repo's own .dig fixtures must give Ok or Err, never a panic, and every load_test on an Ok result must not panic. Non-trivial = >= 2 pins of different direction and >= 1 test (or a corruption of such a document); distinct by document text.",
    assumptions: &["documents with duplicate pin labels or junk widths/defaults are only checked for totality (the statement does not define them)", "a Testcase whose Label entry is present but empty, or whose dataString is empty, is outside the generated domain"],
    quick_cases: 40000,
    thorough_cases: 800000,
    floor: 2000,
};

const LABELS: [&str; 27] = [
    "A", "B", "C", "C_out", "CLK", "D", "D_out", "A_out_out", "Q", "Y", "S0", "my pin", "R&D", "é", "x<y", "A_out", "Q_out", "n", "X", "BUS-CLK", "D_out_out", "\"q\"",
    // labels that collide with the attribute keys of the document format itself
    "Bits", "InDefault", "Label", "Testdata", "elementName",
];

fn gen_circuit(r: &mut Prng) -> Circuit {
    let n = if r.chance(15, 1000) { *r.pick(&[17usize, 33, 65, 66, 129]) } else { r.below(13) };
    let allow_dup = r.chance(1, 10);
    let mut pins = vec![];
    let mut used: Vec<String> = vec![];
    for _ in 0..n {
        let kind = match r.weighted(&[40, 10, 35, 15]) {
            0 => PinKind::In,
            1 => PinKind::Clock,
            2 => PinKind::Out,
            _ => PinKind::Other(r.pick(&["And", "Const", "Probe", "Tunnel", "Register", "in", "OUT"]).to_string()),
        };
        let label = if r.chance(1, 12) {
            None
        } else {
            let mut l = r.pick(&LABELS).to_string();
            if !allow_dup {
                let mut tries = 0;
                while used.contains(&l) && tries < 30 {
                    l = r.pick(&LABELS).to_string();
                    tries += 1;
                }
                if used.contains(&l) {
                    l = format!("p{}", used.len());
                }
            }
            used.push(l.clone());
            Some(l)
        };
        let bits = match r.below(12) {
            0..=4 => BitsSpec::Absent,
            5 => BitsSpec::N(1),
            6 => BitsSpec::N(8),
            7 => BitsSpec::N(64),
            8 => BitsSpec::N(1 + r.below(63)),
            9 => BitsSpec::N(0),
            10 => BitsSpec::Junk(r.pick(&["x", "-3", " 4", "", "4.0", "99999999999999999999999"]).to_string()),
            _ => BitsSpec::N(4),
        };
        let default = match r.below(10) {
            0..=3 => DefSpec::Absent,
            4 => DefSpec::Val(Some("1".into()), Some("false".into())),
            5 => DefSpec::Val(Some(r.range(-9, 300).to_string()), Some("false".into())),
            6 => DefSpec::Val(Some("0".into()), Some("true".into())),
            7 => DefSpec::Val(Some(r.interesting_i64().to_string()), None),
            8 => DefSpec::Val(None, Some("true".into())),
            _ => DefSpec::Val(Some(r.pick(&["junk", "", "1e3", "0x10"]).to_string()), Some(r.pick(&["false", "TRUE", "1"]).to_string())),
        };
        pins.push(Pin { kind, label, bits, default });
    }
    // (now and then many tests and many pins: 17 / 33 / 65+ of them)
    let nt = if r.chance(15, 1000) { *r.pick(&[17usize, 33, 65, 70]) } else { r.below(6) };
    let mut tests = vec![];
    for _ in 0..nt {
        let label = match r.below(6) {
            0 => None,
            1 => Some("t".to_string()),
            2 => Some("same".to_string()),
            _ => Some(r.pick(&["Static", "Dynamic", "first test", "t<1>", "same", "ü", "Testdata", "Label", "Bits"]).to_string()),
        };
        // header from existing labels
        let usable: Vec<String> = pins
            .iter()
            .filter(|p| !matches!(p.kind, PinKind::Other(_)))
            .filter_map(|p| p.label.clone())
            .filter(|l| !l.is_empty() && !l.contains([' ', '\t']))
            .collect();
        let mut hdr: Vec<String> = vec![];
        for l in &usable {
            if r.chance(650, 1000) && !hdr.contains(l) {
                hdr.push(l.clone());
            }
            if r.chance(120, 1000) {
                let o = format!("{l}_out");
                if !hdr.contains(&o) {
                    hdr.push(o);
                }
            }
        }
        if r.chance(60, 1000) {
            hdr.push(r.pick(&["ghost", "Z9_out", "é_out"]).to_string());
        }
        if r.chance(30, 1000) && !hdr.is_empty() {
            let d = hdr[0].clone();
            hdr.push(d);
        }
        r.shuffle(&mut hdr);
        let mut src = String::new();
        match r.below(14) {
            0 => src.push_str("  \n\t\n"), // no header at all
            1 => {
                src.push_str(&hdr.join(" ")); // header without line break
            }
            _ => {
                if r.chance(1, 4) {
                    src.push_str("\n \n");
                }
                src.push_str(&hdr.join(*r.pick(&[" ", "\t", "   "])));
                if r.chance(1, 6) {
                    src.push_str("\r\n");
                } else {
                    src.push('\n');
                }
                for _ in 0..r.below(4) {
                    match r.below(6) {
                        0 => src.push_str("# a <comment> & more\n"),
                        1 => src.push_str("loop(i,2)\n"),
                        2 => src.push_str("end loop\n"),
                        3 => src.push_str("let a = 1 < 2 & 3;\n"),
                        _ => {
                            let row: Vec<&str> = hdr.iter().map(|_| *r.pick(&["0", "1", "X", "Z", "(1+1)", "C"])).collect();
                            src.push_str(&row.join(" "));
                            src.push('\n');
                        }
                    }
                }
            }
        }
        if src.is_empty() {
            src.push('\n');
        }
        tests.push(TestDesc { label, source: src });
    }
    Circuit { pins, tests }
}

#[derive(Debug, Clone, PartialEq, Eq, PartialOrd, Ord)]
struct ESig {
    name: String,
    bits: Option<usize>,
    /// "in:<default>" / "out" / "bidir:<default>"; default None = not asserted
    kind: String,
}

enum Expect {
    Err(String),
    Ok { sigs: Vec<ESig>, tests: Vec<(String, String)>, assert_sigs: bool },
}

fn expect(c: &Circuit) -> Expect {
    let pins: Vec<&Pin> = c.pins.iter().filter(|p| !matches!(p.kind, PinKind::Other(_)) && p.label.as_ref().map(|l| !l.is_empty()).unwrap_or(false)).collect();
    let labels: Vec<&str> = pins.iter().map(|p| p.label.as_deref().unwrap()).collect();
    let mut dup = false;
    for (i, l) in labels.iter().enumerate() {
        if labels[..i].contains(l) {
            dup = true;
        }
    }
    let is_input_pin = |n: &str| pins.iter().any(|p| p.label.as_deref() == Some(n) && matches!(p.kind, PinKind::In | PinKind::Clock));
    let mut bidir: Vec<String> = vec![];
    for t in &c.tests {
        let Some(h) = header_names(&t.source) else { return Expect::Err("test without header".into()) };
        for (i, n) in h.iter().enumerate() {
            if h[..i].contains(n) {
                return Expect::Err(format!("duplicate header name {n}"));
            }
        }
        for n in &h {
            if labels.contains(&n.as_str()) {
                continue;
            }
            match n.strip_suffix("_out") {
                Some(b) if is_input_pin(b) => {
                    if !bidir.contains(&b.to_string()) {
                        bidir.push(b.to_string())
                    }
                }
                _ => return Expect::Err(format!("header name {n} not in circuit")),
            }
        }
    }
    let mut junk = false;
    let sigs = pins
        .iter()
        .map(|p| {
            let name = p.label.clone().unwrap();
            let bits = match &p.bits {
                BitsSpec::Absent => Some(1),
                BitsSpec::N(n) => Some(*n),
                BitsSpec::Junk(_) => {
                    junk = true;
                    None
                }
            };
            let kind = match p.kind {
                PinKind::Out => "out".to_string(),
                _ => {
                    let d = match &p.default {
                        DefSpec::Absent => Some("0".to_string()),
                        DefSpec::Val(_, Some(z)) if z == "true" => Some("Z".to_string()),
                        DefSpec::Val(Some(v), z) if v.parse::<i64>().is_ok() && z.as_deref().map(|z| z == "false").unwrap_or(true) => Some(v.parse::<i64>().unwrap().to_string()),
                        DefSpec::Val(None, Some(z)) if z == "false" => Some("0".to_string()),
                        _ => {
                            junk = true;
                            None
                        }
                    };
                    let pre = if bidir.contains(&name) { "bidir" } else { "in" };
                    format!("{pre}:{}", d.unwrap_or("?".into()))
                }
            };
            ESig { name, bits, kind }
        })
        .collect();
    let tests = c.tests.iter().map(|t| (t.label.clone().unwrap_or("(unnamed)".into()), t.source.clone())).collect();
    Expect::Ok { sigs, tests, assert_sigs: !dup && !junk }
}

fn observed_sigs(f: &dig::File) -> Vec<ESig> {
    f.signals
        .iter()
        .map(|s| {
            let d = |v: &InputValue| match v {
                InputValue::Value(n) => n.to_string(),
                InputValue::Z => "Z".to_string(),
            };
            ESig {
                name: s.name.clone(),
                bits: Some(s.bits),
                kind: match &s.typ {
                    SignalType::Input { default } => format!("in:{}", d(default)),
                    SignalType::Output => "out".into(),
                    SignalType::Bidirectional { default } => format!("bidir:{}", d(default)),
                    SignalType::Virtual { .. } => "virtual".into(),
                },
            }
        })
        .collect()
}

/// load_test / load_test_by_name equivalences on an Ok file. Returns a finding or None.
fn load_equivalences(f: &dig::File, acc: &mut Acc) -> Option<Finding> {
    let n = f.test_cases.len();
    for i in 0..n + 2 {
        let got = guarded(|| f.load_test(i));
        acc.event("load_test_calls", 1);
        let got = match got {
            Err(p) => {
                // if parsing the source directly panics in the same place this is the parser's
                // defect (C09), not a difference between load_test and parse+bind
                if i < n {
                    let src = f.test_cases[i].source.clone();
                    if let Err(p2) = guarded(move || ParsedTestCase::from_str(&src).map(|_| ())) {
                        if p2.signature() == p.signature() {
                            acc.tag("observation:parser_panic_in_test_source_(C09)");
                            continue;
                        }
                    }
                }
                return Some(Finding::new(p.signature(), format!("load_test({i}) panicked: {p:?}")));
            }
            Ok(g) => g,
        };
        if i >= n {
            match got {
                Err(digital_test_runner::errors::LoadTestError::IndexOutOfBounds { number, len }) if number == i && len == n => {}
                other => return Some(Finding::new("load-index-out-of-range", format!("load_test({i}) with {n} tests gave {:?}", other.map(|t| t.to_string())))),
            }
            continue;
        }
        let src = f.test_cases[i].source.clone();
        let sigs = f.signals.clone();
        let want = guarded(move || ParsedTestCase::from_str(&src).map_err(|e| err_chain(&e)).and_then(|p| p.with_signals(sigs).map_err(|e| err_chain(&e))));
        let want = match want {
            Err(_) => continue, // parser panic: C09's business, not this monitor's
            Ok(w) => w,
        };
        match (got, want) {
            (Ok(a), Ok(b)) => {
                if a != b {
                    return Some(Finding::new("load-test-differs", format!("load_test({i}) != from_str(source).with_signals(signals)")));
                }
            }
            (Err(a), Err(b)) => {
                let a = err_chain(&a);
                if a != b {
                    return Some(Finding::new("load-test-error-differs", format!("load_test({i}) error {a:?} vs direct {b:?}")));
                }
            }
            (a, b) => {
                return Some(Finding::new(
                    "load-test-verdict-differs",
                    format!("load_test({i}) is {} but parsing+binding the source directly is {}", if a.is_ok() { "Ok" } else { "Err" }, if b.is_ok() { "Ok" } else { "Err" }),
                ))
            }
        }
    }
    // by name
    let mut names: Vec<String> = f.test_cases.iter().map(|t| t.name.clone()).collect();
    names.push("no such test ☃".into());
    names.dedup();
    for name in names {
        let first = f.test_cases.iter().position(|t| t.name == name);
        let got = guarded(|| f.load_test_by_name(&name));
        let got = match got {
            Err(p) => return Some(Finding::new(p.signature(), format!("load_test_by_name({name:?}) panicked: {p:?}"))),
            Ok(g) => g,
        };
        match first {
            None => {
                if !matches!(got, Err(digital_test_runner::errors::LoadTestError::TestNotFound(_))) {
                    return Some(Finding::new("load-by-unknown-name", format!("load_test_by_name({name:?}) with no such test gave {:?}", got.map(|t| t.to_string()))));
                }
            }
            Some(i) => {
                let want = guarded(|| f.load_test(i)).ok()?;
                let same = match (&got, &want) {
                    (Ok(a), Ok(b)) => a == b,
                    (Err(a), Err(b)) => err_chain(a) == err_chain(b),
                    _ => false,
                };
                if !same {
                    return Some(Finding::new("load-by-name-not-first", format!("load_test_by_name({name:?}) differs from load_test({i}) (first test with that label)")));
                }
            }
        }
    }
    None
}

fn corrupt(doc: &str, r: &mut Prng) -> (String, &'static str) {
    let b = doc.len().max(1);
    let floor = |mut i: usize| {
        while i > 0 && !doc.is_char_boundary(i) {
            i -= 1;
        }
        i
    };
    match r.below(9) {
        0 => (doc[..floor(r.below(b))].to_string(), "truncate"),
        1 => {
            // delete one tag
            let tags: Vec<(usize, usize)> = doc.match_indices('<').filter_map(|(i, _)| doc[i..].find('>').map(|j| (i, i + j + 1))).collect();
            if tags.is_empty() {
                return (doc.to_string(), "noop");
            }
            let (a, e) = tags[r.below(tags.len())];
            (format!("{}{}", &doc[..a], &doc[e..]), "delete_tag")
        }
        2 => (doc.replacen("</entry>", "</string>", 1 + r.below(2)), "swap_closer"),
        3 => {
            let i = floor(r.below(b));
            (format!("{}&{};{}", &doc[..i], r.pick(&["bogus", "#xZZ", "#99999999", "", "amp"]), &doc[i..]), "entity_garbage")
        }
        4 => (doc.replace('\n', "\r\n"), "crlf"),
        5 => (format!("\u{feff}{doc}"), "bom"),
        6 => {
            let i = floor(r.below(b));
            (format!("{}é☃<{}", &doc[..i], &doc[i..]), "non_ascii_then_error")
        }
        7 => (doc.replace("<string>Label</string>", "<string></string>"), "empty_label_keys"),
        _ => {
            let i = floor(r.below(b));
            let j = floor((i + r.below(40)).min(doc.len()));
            (format!("{}{}", &doc[..i], &doc[j..]), "delete_span")
        }
    }
}

fn fixtures() -> Vec<String> {
    let mut v = vec![];
    if cfg!(miri) {
        // the repo's fixtures are 30-60 kB of XML: hours under Miri. The Miri leg works on the
        // generated documents only.
        return v;
    }
    if let Ok(rd) = std::fs::read_dir("/repo/tests/data") {
        let mut paths: Vec<_> = rd.filter_map(|e| e.ok()).map(|e| e.path()).filter(|p| p.extension().map(|e| e == "dig").unwrap_or(false)).collect();
        paths.sort();
        for p in paths {
            if let Ok(s) = std::fs::read_to_string(&p) {
                v.push(s);
            }
        }
    }
    v
}

fn totality(doc: &str, what: &str, case_seed: u64, acc: &mut Acc) -> bool {
    acc.evaluations += 1;
    match guarded(|| dig::File::parse(doc)) {
        Err(p) => {
            acc.violation(case_seed, what, Finding::new(p.signature(), format!("dig::File::parse panicked on a {what} document: {p:?}")), json!({"document": doc}));
            false
        }
        Ok(Ok(f)) => {
            acc.tag("corrupted_document_still_ok");
            if let Some(fd) = load_equivalences(&f, acc) {
                acc.violation(case_seed, what, fd, json!({"document": doc}));
                return false;
            }
            true
        }
        Ok(Err(e)) => {
            acc.tag("corrupted_document_err");
            // rendering the error is an observation only (not part of the statement)
            let rendered = guarded(|| {
                let mut s = String::new();
                let _ = miette::GraphicalReportHandler::new_themed(miette::GraphicalTheme::unicode_nocolor()).render_report(&mut s, &e);
                s.len()
            });
            if rendered.is_err() {
                acc.tag("observation:rendering_xml_error_panics");
            }
            true
        }
    }
}

pub fn c16(case_seed: u64, acc: &mut Acc) {
    let mut r = Prng::new(case_seed);
    acc.cases += 1;
    let c = gen_circuit(&mut r);
    let st = XmlStyle::random(&mut r);
    let doc = render(&c, &st, &mut r);
    let h = crate::prng::hash_bytes(doc.as_bytes());
    acc.distinct.insert(h);
    acc.evaluations += 1;
    let got = guarded(|| dig::File::parse(&doc));
    let ex = expect(&c);
    let case = || json!({"document": doc, "description": c});
    // the other two ways in: `str::parse::<dig::File>()` and, through a scratch file,
    // `dig::File::open` must agree with `dig::File::parse` on every document
    if let Ok(base) = &got {
        type Summary = Result<(Vec<ESig>, Vec<(String, String)>), String>;
        // (error texts are not compared: the message listing unknown header names enumerates a
        // HashSet, so its order differs from one parse of the same document to the next - no
        // property speaks about that text)
        let summary = |r: Result<dig::File, digital_test_runner::errors::DigFileError>| -> Summary {
            r.map(|f| (observed_sigs(&f), f.test_cases.iter().map(|t| (t.name.clone(), t.source.clone())).collect())).map_err(|_| String::new())
        };
        let base_s: Summary = match base {
            Ok(f) => Ok((observed_sigs(f), f.test_cases.iter().map(|t| (t.name.clone(), t.source.clone())).collect())),
            Err(_) => Err(String::new()),
        };
        if r.chance(150, 1000) {
            acc.evaluations += 1;
            match guarded(|| summary(doc.parse::<dig::File>())) {
                Err(p) => {
                    acc.violation(case_seed, "from_str", Finding::new(p.signature(), format!("str::parse::<dig::File>() panicked: {p:?}")), case());
                    return;
                }
                Ok(s2) if s2 != base_s => {
                    acc.violation(case_seed, "from_str", Finding::new("from-str-differs-from-parse", format!("{:?} vs {:?}", s2.as_ref().map(|x| x.0.len()), base_s.as_ref().map(|x| x.0.len()))), case());
                    return;
                }
                Ok(_) => acc.event("from_str_compared_with_parse", 1),
            }
        }
        if !cfg!(miri) && r.chance(30, 1000) {
            let path = std::env::temp_dir().join(format!("dtrmon-{}-{:x}.dig", std::process::id(), h));
            if std::fs::write(&path, doc.as_bytes()).is_ok() {
                acc.evaluations += 1;
                let via_open = guarded(|| summary(dig::File::open(&path)));
                let _ = std::fs::remove_file(&path);
                match via_open {
                    Err(p) => {
                        acc.violation(case_seed, "open", Finding::new(p.signature(), format!("dig::File::open panicked: {p:?}")), case());
                        return;
                    }
                    Ok(s2) if s2 != base_s => {
                        acc.violation(case_seed, "open", Finding::new("open-differs-from-parse", format!("{:?} vs {:?}", s2.as_ref().map(|x| x.0.len()), base_s.as_ref().map(|x| x.0.len()))), case());
                        return;
                    }
                    Ok(_) => acc.event("open_of_generated_document_compared_with_parse", 1),
                }
                // the same PATH holding another document of the same length and the same
                // modification time: what open() returns is what the file holds now
                let c2 = gen_circuit(&mut r);
                let mut doc2 = render(&c2, &st, &mut r);
                let mut doc1 = doc.clone();
                while doc2.len() < doc1.len() {
                    doc2.push('\n');
                }
                while doc1.len() < doc2.len() {
                    doc1.push('\n');
                }
                let want2 = guarded(|| summary(dig::File::parse(&doc2)));
                let reopened = (|| -> Option<Result<Summary, PanicInfo>> {
                    std::fs::write(&path, doc1.as_bytes()).ok()?;
                    let t0 = std::fs::metadata(&path).ok()?.modified().ok()?;
                    let first = guarded(|| summary(dig::File::open(&path)));
                    let _ = first;
                    std::fs::write(&path, doc2.as_bytes()).ok()?;
                    std::fs::File::options().write(true).open(&path).ok()?.set_modified(t0).ok()?;
                    Some(guarded(|| summary(dig::File::open(&path))))
                })();
                let _ = std::fs::remove_file(&path);
                if let (Some(got2), Ok(want2)) = (reopened, want2) {
                    acc.evaluations += 1;
                    match got2 {
                        Err(p) => {
                            acc.violation(case_seed, "open", Finding::new(p.signature(), format!("dig::File::open panicked: {p:?}")), json!({"first_document": doc1, "second_document": doc2}));
                            return;
                        }
                        Ok(g) if g != want2 => {
                            acc.violation(
                                case_seed,
                                "reopen",
                                Finding::new("open-returns-stale-document", "a path was rewritten with another document of the same length and modification time; open() did not return what the file holds now".to_string()),
                                json!({"first_document": doc1, "second_document": doc2}),
                            );
                            return;
                        }
                        Ok(_) => acc.event("same_path_reopened_with_equal_length_and_mtime", 1),
                    }
                }
            }
        }
    }
    let f: Option<Finding> = match (&got, &ex) {
        (Err(p), _) => Some(Finding::new(p.signature(), format!("dig::File::parse panicked: {p:?}"))),
        (Ok(Ok(_)), Expect::Err(why)) => Some(Finding::new("dig-accepts-bad-description", format!("parse is Ok but the description must be refused: {why}"))),
        (Ok(Err(e)), Expect::Ok { .. }) => Some(Finding::new("dig-rejects-good-description", format!("parse failed on a well-formed description: {}", err_chain(e)))),
        (Ok(Err(_)), Expect::Err(_)) => {
            acc.tag("bad_description_refused");
            None
        }
        (Ok(Ok(file)), Expect::Ok { sigs, tests, assert_sigs }) => {
            let mut f = None;
            if *assert_sigs {
                let mut a = observed_sigs(file);
                let mut b = sigs.clone();
                a.sort();
                b.sort();
                if a != b {
                    f = Some(Finding::new("dig-signals-differ", format!("signals {:?}\nexpected {:?}", a, b)));
                } else {
                    acc.tag("signal_multiset_compared");
                    acc.tag_n("bidirectional_inferred", a.iter().filter(|s| s.kind.starts_with("bidir")).count() as u64);
                }
            } else {
                acc.tag("signals_not_asserted_(duplicates_or_junk)");
            }
            if f.is_none() {
                let obs: Vec<(String, String)> = file.test_cases.iter().map(|t| (t.name.clone(), t.source.clone())).collect();
                if obs != *tests {
                    f = Some(Finding::new("dig-tests-differ", format!("test cases {:?}\nexpected {:?}", obs, tests)));
                }
            }
            if f.is_none() {
                f = load_equivalences(file, acc);
            }
            f
        }
    };
    if let Some(f) = f {
        acc.violation(case_seed, "faithful", f, case());
        return;
    }
    // collision shapes exercised
    let labs: Vec<&str> = c.pins.iter().filter_map(|p| p.label.as_deref()).collect();
    for l in &labs {
        if let Some(b) = l.strip_suffix("_out") {
            if labs.contains(&b) {
                acc.tag("shape:pin_X_and_pin_X_out_both_present");
            } else {
                acc.tag("shape:pin_labelled_X_out_alone");
            }
        }
    }
    // totality under corruption
    let mut ok = true;
    for _ in 0..6 {
        let (d2, what) = corrupt(&doc, &mut r);
        acc.tag(&format!("corruption:{what}"));
        ok &= totality(&d2, what, case_seed, acc);
    }
    if r.chance(1, 40) {
        let fx = fixtures();
        if !fx.is_empty() {
            let d = r.pick(&fx).clone();
            let (d2, what) = corrupt(&d, &mut r);
            acc.tag("corruption_of_repo_fixture");
            ok &= totality(&d2, what, case_seed, acc);
        }
    }
    if r.chance(1, 50) {
        let junk: String = (0..r.below(200)).map(|_| *r.pick(&['<', '>', '&', 'a', '/', '"', ' ', '\n', 'é', '=', '!', '-', '[', ']'])).collect();
        ok &= totality(&junk, "arbitrary_text", case_seed, acc);
    }
    if !ok {
        return;
    }
    acc.held += 1;
    let dirs_in = c.pins.iter().any(|p| matches!(p.kind, PinKind::In | PinKind::Clock) && p.label.is_some());
    let dirs_out = c.pins.iter().any(|p| matches!(p.kind, PinKind::Out) && p.label.is_some());
    if dirs_in && dirs_out && !c.tests.is_empty() {
        acc.nontrivial.insert(h);
        acc.sample(|| json!({"description": c, "document_bytes": doc.len(), "style": st}));
    }
}

pub fn c16_exhaustive(acc: &mut Acc) -> Value {
    // the repo's own fixtures: must load, and every test must satisfy the equivalences
    let mut n = 0;
    for d in fixtures() {
        n += 1;
        acc.evaluations += 1;
        match guarded(|| dig::File::parse(&d)) {
            Err(p) => acc.violation(n, "fixture", Finding::new(p.signature(), format!("fixture panics: {p:?}")), json!(null)),
            Ok(Ok(f)) => {
                if let Some(fd) = load_equivalences(&f, acc) {
                    acc.violation(n, "fixture", fd, json!(null));
                }
                // truncation at every 97th byte
                let mut i = 0;
                while i < d.len() {
                    let mut j = i;
                    while !d.is_char_boundary(j) {
                        j -= 1;
                    }
                    totality(&d[..j], "fixture_truncation", n, acc);
                    i += 97;
                }
            }
            Ok(Err(_)) => acc.tag("fixture_is_an_error_document"),
        }
    }
    // dig::File::open: a missing file is an error, an existing one equals parse(read_to_string)
    let mut opened = 0;
    if !cfg!(miri) {
        match guarded(|| dig::File::open("/nonexistent/dir/none.dig").is_err()) {
            Ok(true) => {}
            other => acc.violation(0, "open", Finding::new("open-missing-file", format!("{other:?}")), json!(null)),
        }
        if let Ok(rd) = std::fs::read_dir("/repo/tests/data") {
            for e in rd.filter_map(|e| e.ok()).filter(|e| e.path().extension().map(|x| x == "dig").unwrap_or(false)) {
                let path = e.path();
                let via_open = guarded(|| dig::File::open(&path).map(|f| (observed_sigs(&f), f.test_cases.iter().map(|t| (t.name.clone(), t.source.clone())).collect::<Vec<_>>())).map_err(|e| e.to_string()));
                let text = std::fs::read_to_string(&path).unwrap_or_default();
                let via_parse = guarded(|| dig::File::parse(&text).map(|f| (observed_sigs(&f), f.test_cases.iter().map(|t| (t.name.clone(), t.source.clone())).collect::<Vec<_>>())).map_err(|e| e.to_string()));
                opened += 1;
                if via_open != via_parse {
                    acc.violation(opened, "open", Finding::new("open-differs-from-parse", format!("{}", path.display())), json!(null));
                }
            }
        }
    }
    json!({"repo_fixtures": n, "each_truncated_every_97_bytes": true, "open_vs_parse_compared": opened})
}
