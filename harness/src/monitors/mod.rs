//! Property monitors. Each monitor turns one case seed into one or more executions of the
//! real crate, observes them at the boundary and decides its property on that history.

use crate::acc::Acc;
use crate::compare::*;
use crate::model::*;
use crate::pp::{self, Printed};
use crate::realrun::*;
use crate::refint::{self, RefOpts, RefOutcome, RefTrace};
use serde_json::{json, Value};

pub mod binding;
pub mod c01;
pub mod determinism;
pub mod digfile;
pub mod dynamic;
pub mod faults;
pub mod hazard;
pub mod text;
pub mod values;

pub struct Meta {
    pub id: &'static str,
    pub level: &'static str,
    pub rule: &'static str,
    pub assumptions: &'static [&'static str],
    /// cases per build profile
    pub quick_cases: u64,
    pub thorough_cases: u64,
    /// minimum number of distinct non-trivial cases a run must observe (else exit 2)
    pub floor: u64,
}

pub fn meta(prop: &str) -> Option<Meta> {
    Some(match prop {
        "C01" => c01::META,
        "C02" => dynamic::META_C02,
        "C03" => dynamic::META_C03,
        "C04" => dynamic::META_C04,
        "C05" => dynamic::META_C05,
        "C06" => dynamic::META_C06,
        "C07" => values::META_C07,
        "C08" => values::META_C08,
        "C10" => hazard::META_C10,
        "C17" => hazard::META_C17,
        "C11" => binding::META_C11,
        "C16" => digfile::META_C16,
        "C09" => text::META_C09,
        "C12" => text::META_C12,
        "C20" => text::META_C20,
        "C13" => faults::META_C13,
        "C15" => determinism::META_C15,
        "C14" => dynamic::META_C14,
        "C18" => dynamic::META_C18,
        "C19" => dynamic::META_C19,
        _ => return None,
    })
}

pub fn run_case(prop: &str, index: u64, case_seed: u64, acc: &mut Acc) {
    acc.cur_index = index;
    match prop {
        "C01" => c01::run_indexed(index, case_seed, acc),
        "C02" => dynamic::c02(case_seed, acc),
        "C03" => dynamic::c03(case_seed, acc),
        "C04" => dynamic::c04(case_seed, acc),
        "C05" => dynamic::c05(case_seed, acc),
        "C06" => dynamic::c06(case_seed, acc),
        "C07" => values::c07(index, case_seed, acc),
        "C08" => values::c08(case_seed, acc),
        "C10" => hazard::c10(case_seed, acc),
        "C17" => hazard::c17(case_seed, acc),
        "C11" => binding::c11(case_seed, acc),
        "C16" => digfile::c16(case_seed, acc),
        "C09" => text::c09(case_seed, acc),
        "C12" => text::c12(case_seed, acc),
        "C20" => text::c20(case_seed, if acc.thorough { 8 } else { 4 }, acc),
        "C13" => faults::c13(case_seed, acc),
        "C15" => determinism::c15(case_seed, acc),
        "C14" => dynamic::c14(case_seed, acc),
        "C18" => dynamic::c18(case_seed, acc),
        "C19" => dynamic::c19(case_seed, acc),
        _ => panic!("unknown property {prop}"),
    }
}

/// Deterministic sub-spaces enumerated once per run (by shard 0 of each profile).
pub fn run_exhaustive(prop: &str, tier: &str, acc: &mut Acc) -> Value {
    match prop {
        "C01" => c01::exhaustive(tier, acc),
        "C03" => dynamic::c03_exhaustive(acc),
        "C04" => dynamic::fixture_counter(acc),
        "C05" => dynamic::c05_exhaustive(tier, acc),
        "C08" => values::c08_exhaustive(tier, acc),
        "C09" => text::c09_exhaustive(tier, acc),
        "C10" => hazard::c10_exhaustive(acc),
        "C16" => digfile::c16_exhaustive(acc),
        _ => json!(null),
    }
}

// ------------------------------------------------------------------------------------------
// shared helpers

pub fn case_json(case: &Case, pr: &Printed) -> Value {
    json!({
        "text": pr.text,
        "signals": case.signals,
        "script": case.script,
        "rng_seed": case.rng_seed.to_string(),
    })
}

pub fn case_hash(case: &Case, pr: &Printed) -> u64 {
    let s = serde_json::to_string(&(&pr.text, &case.signals, &case.script)).unwrap();
    crate::prng::hash_bytes(s.as_bytes())
}

pub struct Ran {
    pub pr: Printed,
    pub rf: Box<RefTrace>,
    pub real: RealTrace,
}

/// Flatten the per-step hook logs into the sequence the reference consumes.
pub fn flatten_draws(real: &RealTrace) -> Vec<crate::refint::Draw> {
    let mut v = vec![];
    for st in &real.steps {
        for d in &st.draws {
            match d {
                DrawRec::NewContext(_) => {}
                DrawRec::Reset => v.push(crate::refint::Draw::Reset),
                DrawRec::Draw { bound, value } => v.push(crate::refint::Draw::Draw {
                    bound: *bound,
                    value: *value,
                }),
            }
        }
    }
    v
}

pub const REAL_STEP_CAP: usize = 450;

/// Would the program finish within the budgets (draws faked at their maximum)? Monitors that run
/// the real crate without a full reference history ask this first, so that a program which
/// legitimately spins for ages inside one next() is never handed to the crate.
pub fn preflight_ok(case: &Case, acc: &mut Acc) -> bool {
    let pre = RefOpts { fake_draws: true, max_rows: 300, max_steps: 4000, ..Default::default() };
    match refint::run(&case.program, &case.signals, &case.script, pre) {
        RefOutcome::Inconclusive(why) if !why.starts_with("let rebinds") => {
            acc.inconclusive(&format!("reference pre-flight: {why}"));
            false
        }
        _ => true,
    }
}

/// Reference first (its verdict on feasibility decides whether the case is run at all),
/// then the real crate with the same script. For programs using `random` the real run goes
/// first (seed pinned through the hook) and the reference replays its draw log.
/// Counts events into `acc`.
pub fn standard_run(case: &Case, acc: &mut Acc, opts: Option<RefOpts>) -> Option<Ran> {
    let pr = pp::print(&case.program, &case.layout_opts);
    if case.program.uses_random() {
        // pre-flight: would the program finish within the budgets if every draw came out as
        // large as it can? If not, the real crate is not run at all (it could spin for ages
        // inside one next(), legitimately).
        let pre = RefOpts { fake_draws: true, max_rows: 300, max_steps: 4000, ..Default::default() };
        if let RefOutcome::Inconclusive(why) = refint::run(&case.program, &case.signals, &case.script, pre) {
            acc.inconclusive(&format!("reference pre-flight: {why}"));
            return None;
        }
        let real = run_text(
            &pr.text,
            &case.signals,
            &case.script,
            &RunOpts {
                max_steps: REAL_STEP_CAP,
                probe_after_end: 2,
                stop_at_error: true,
                seed: Some(case.rng_seed),
                continue_on: None,
            },
        );
        if real.steps.len() >= REAL_STEP_CAP {
            acc.inconclusive("real run reached the step cap (program too long)");
            return None;
        }
        let mut o = opts.unwrap_or_default();
        o.draws = Some(flatten_draws(&real));
        // the real run above stopped at its first error item
        o.continue_after_row_errors = false;
        let rf = match refint::run(&case.program, &case.signals, &case.script, o) {
            RefOutcome::Done(t) => t,
            RefOutcome::Inconclusive(why) => {
                acc.inconclusive(&format!("reference: {why}"));
                return None;
            }
        };
        count_events(acc, &real);
        return Some(Ran { pr, rf, real });
    }
    let rf = match refint::run(
        &case.program,
        &case.signals,
        &case.script,
        opts.unwrap_or_default(),
    ) {
        RefOutcome::Done(t) => t,
        RefOutcome::Inconclusive(why) => {
            acc.inconclusive(&format!("reference: {why}"));
            return None;
        }
    };
    let real = run_text(
        &pr.text,
        &case.signals,
        &case.script,
        &RunOpts {
            max_steps: rf.items.len() + 6,
            probe_after_end: 2,
            stop_at_error: true,
            seed: Some(case.rng_seed),
            // the caller model goes on after row-level errors (failed call of a row, virtual
            // signal of a row not evaluable) exactly where the reference does
            continue_on: Some(
                rf.items
                    .iter()
                    .enumerate()
                    .map(|(k, _)| rf.err_vars.contains_key(&k) || (rf.ends_in_failing_while_condition && k + 1 == rf.items.len()))
                    .collect(),
            ),
        },
    );
    count_events(acc, &real);
    Some(Ran { pr, rf, real })
}

/// Draw accounting (C17 b/c): the reference must have consumed the hook log exactly.
pub fn draw_accounting(ran: &Ran) -> Option<Finding> {
    if let Some(crate::refint::RefItem::Err(crate::refint::RefErr::NotImplemented(m))) = ran.rf.items.last() {
        if m.starts_with("draw-accounting") {
            return Some(Finding::new("draw-accounting", m.clone()));
        }
    }
    if ran.rf.draws_left > 0 {
        return Some(Finding::new(
            "draw-accounting",
            format!("{} logged draw/reset events are not accounted for by any evaluation the program prescribes", ran.rf.draws_left),
        ));
    }
    None
}

pub fn count_events(acc: &mut Acc, real: &RealTrace) {
    acc.evaluations += 1;
    acc.event("next_calls", real.steps.len() as u64);
    acc.event("device_calls", real.calls.len() as u64);
    acc.event(
        "rows_observed",
        real.steps
            .iter()
            .filter(|s| matches!(s.item, RealItem::Row(_)))
            .count() as u64,
    );
    acc.event(
        "error_items_observed",
        real.steps
            .iter()
            .filter(|s| matches!(s.item, RealItem::ErrDriver { .. } | RealItem::ErrRuntime(_)))
            .count() as u64,
    );
    acc.event(
        "draws_logged",
        real.steps.iter().map(|s| s.draws.len() as u64).sum(),
    );
}

pub fn sample_json(case: &Case, ran: &Ran) -> Value {
    json!({
        "text": ran.pr.text,
        "signals": case.signals.iter().map(|s| format!("{}:{}:{:?}", s.name, s.bits, s.kind)).collect::<Vec<_>>(),
        "device": {"layout": case.script.layout, "values": case.script.values, "override_write": case.script.override_write},
        "prescribed_items": ran.rf.items.len(),
        "observed_steps": ran.real.steps.len(),
        "device_calls": ran.real.calls.len(),
    })
}

pub fn first_some<T>(xs: Vec<Option<T>>) -> Option<T> {
    xs.into_iter().flatten().next()
}

/// Consumption adaptors. A caller may drive the iterator through `nth`, `skip`, `step_by`,
/// `count` or `last` instead of plain `next()`: the rows are run all the same, so the driver
/// must see exactly the calls of the plain run (kind, inputs, `changed`), and the items that are
/// delivered must be the items of the plain run at those positions. Only applied to runs whose
/// plain stream has no error item (the caller model after errors is a separate matter, 2.10).
pub fn adaptor_check(case: &Case, pr: &Printed, base: &RealTrace, r: &mut crate::prng::Prng, acc: &mut Acc) -> Option<Finding> {
    if !matches!(base.construct, Construct::Ok) {
        return None;
    }
    let rows: Vec<&RealItem> = base.steps.iter().map(|s| &s.item).take_while(|i| matches!(i, RealItem::Row(_))).collect();
    let clean = base.steps.len() > rows.len()
        && base.steps[rows.len()..].iter().all(|s| s.item == RealItem::End)
        && rows.len() >= 2;
    if !clean {
        return None;
    }
    let (_, parsed) = parse(&pr.text);
    let (_, tc) = bind(parsed?, &case.signals);
    let tc = tc?;
    let n = rows.len();
    let sched = |r: &mut crate::prng::Prng| (0..1 + r.below(4)).map(|_| r.below(4)).collect::<Vec<usize>>();
    let how = match r.below(8) {
        0 | 1 => Consume::Nth(sched(r)),
        2 => Consume::Skip(sched(r)),
        3 => Consume::StepBy(1 + r.below(4)),
        4 => Consume::Count(r.below(n + 1)),
        5 => Consume::Last(r.below(n + 1)),
        _ => Consume::Bulk(r.below(n + 1), r.below(5) as u8),
    };
    let got = run_bound_consume(&tc, &case.signals, &case.script, Some(case.rng_seed), &how, n + 8)?;
    acc.evaluations += 1;
    let name = match &how {
        Consume::Nth(_) => "nth",
        Consume::Skip(_) => "skip",
        Consume::StepBy(_) => "step_by",
        Consume::Count(_) => "count",
        Consume::Last(_) => "last",
        Consume::Bulk(_, 0) => "collect",
        Consume::Bulk(_, 1) => "for_each",
        Consume::Bulk(_, 2) => "fold",
        Consume::Bulk(_, 3) => "find",
        Consume::Bulk(..) => "filter_map",
    };
    acc.event(&format!("adaptor_runs_{name}"), 1);
    if let Some(p) = &got.panic {
        return Some(Finding::new(p.signature(), format!("consuming through {how:?}: {p:?}")));
    }
    let at = |i: usize| -> &RealItem { rows.get(i).copied().unwrap_or(&RealItem::End) };
    for (i, item) in &got.items {
        if item != at(*i) {
            return Some(Finding::new(
                "adaptor-item-differs",
                format!("consuming through {how:?}: item at position {i} is {item:?}, plain next() delivers {:?}", at(*i)),
            ));
        }
    }
    if let Some((from, c)) = got.count {
        if c != n - from.min(n) {
            return Some(Finding::new("adaptor-count", format!("{how:?}: count() after {from} items = {c}, plain stream has {n} rows")));
        }
    }
    if let Some((from, l)) = &got.last {
        let want = if *from < n { Some(at(n - 1).clone()) } else { None };
        if *l != want {
            return Some(Finding::new("adaptor-last", format!("{how:?}: last() after {from} items = {l:?}, want {want:?}")));
        }
    }
    // every adaptor used here runs the stream to its end (Nth/Skip until None, StepBy/Count/Last
    // exhaust it), except that skipping may stop short of trailing rows: compare the common prefix
    // and require that nothing but the calls of the plain run was made
    let m = got.calls.len();
    if m > base.calls.len() || got.calls[..] != base.calls[..m] {
        let k = (0..m.min(base.calls.len())).find(|&k| got.calls[k] != base.calls[k]).unwrap_or(m.min(base.calls.len()));
        return Some(Finding::new(
            "adaptor-driver-calls-differ",
            format!(
                "consuming through {how:?}: driver call #{k} is {:?}, the plain run makes {:?}",
                got.calls.get(k),
                base.calls.get(k)
            ),
        ));
    }
    let exhausted = match &how {
        Consume::StepBy(_) | Consume::Count(_) | Consume::Last(_) | Consume::Bulk(..) => true,
        Consume::Nth(_) | Consume::Skip(_) => got.items.last().map(|(_, i)| *i == RealItem::End).unwrap_or(false),
    };
    if exhausted && m != base.calls.len() {
        return Some(Finding::new(
            "adaptor-driver-calls-differ",
            format!("consuming through {how:?} to the end made {m} driver calls, the plain run {}", base.calls.len()),
        ));
    }
    acc.event("adaptor_driver_calls_compared", m as u64);
    None
}

/// C18 as far as it can be decided from the text alone (used where the reference abstains, e.g.
/// loops whose body rebinds the loop's own counter): at every yielded row, `vars()` holds only
/// names that can be in scope at that row's place in the text, and at rows outside every loop the
/// constant top-level bindings are visible with their own value again.
pub fn vars_within_textual_scope(p: &Program, pr: &Printed, real: &RealTrace, acc: &mut Acc) -> Option<Finding> {
    let scopes = crate::scope::row_scopes(p);
    let by_line: std::collections::HashMap<usize, &crate::scope::RowScope> =
        pr.row_lines.iter().filter_map(|(id, line)| scopes.get(id).map(|s| (*line, s))).collect();
    for (k, st) in real.steps.iter().enumerate() {
        let RealItem::Row(row) = &st.item else { continue };
        let (Some(sc), Some(vars)) = (by_line.get(&row.line), st.vars.as_ref()) else { continue };
        acc.event("vars_snapshots_checked_against_textual_scope", 1);
        if let Some(extra) = vars.keys().find(|n| !sc.names.contains(*n)) {
            return Some(Finding::new(
                "vars-name-out-of-scope",
                format!("row #{k} (line {}): vars() holds `{extra}` = {:?}, which is not in scope there (in scope: {:?})", row.line, vars.get(extra), sc.names),
            ));
        }
        if sc.outside_loops {
            for (n, v) in &sc.fixed {
                if vars.get(n) != Some(v) {
                    return Some(Finding::new(
                        "vars-outer-binding-not-uncovered",
                        format!("row #{k} (line {}), outside every loop: vars()[{n}] = {:?}, but the only bindings of `{n}` outside loop bodies make it {v}", row.line, vars.get(n)),
                    ));
                }
            }
        }
    }
    None
}

/// The trait's own default `write_input`: with a driver that implements only the required method
/// every row still reaches the device exactly once, with the same inputs, and the items are those
/// of the run against the recording driver. Applied to error-free runs.
pub fn plain_driver_check(case: &Case, pr: &Printed, base: &RealTrace, acc: &mut Acc) -> Option<Finding> {
    if !matches!(base.construct, Construct::Ok) {
        return None;
    }
    let rows: Vec<&RealItem> = base.steps.iter().map(|s| &s.item).take_while(|i| matches!(i, RealItem::Row(_))).collect();
    let clean = base.steps.len() > rows.len() && base.steps[rows.len()..].iter().all(|s| s.item == RealItem::End) && !rows.is_empty();
    if !clean {
        return None;
    }
    let (_, parsed) = parse(&pr.text);
    let (_, tc) = bind(parsed?, &case.signals);
    let tc = tc?;
    let (items, calls, panic) = run_bound_plain_driver(&tc, &case.signals, &case.script, Some(case.rng_seed), rows.len() + 4)?;
    acc.evaluations += 1;
    acc.event("runs_through_the_trait_default_write_input", 1);
    if let Some(p) = panic {
        return Some(Finding::new(p.signature(), format!("driver without write_input: {p:?}")));
    }
    for (k, item) in items.iter().enumerate() {
        let want = rows.get(k).copied().unwrap_or(&RealItem::End);
        if item != want {
            return Some(Finding::new(
                "default-write-input-item-differs",
                format!("driver that does not override write_input: item {k} is {item:?}, with the recording driver {want:?}"),
            ));
        }
    }
    if items.len() != rows.len() + 1 {
        return Some(Finding::new("default-write-input-item-differs", format!("{} items instead of {} rows + end", items.len(), rows.len())));
    }
    if calls.len() != base.calls.len() {
        return Some(Finding::new(
            "default-write-input-calls-differ",
            format!("driver that does not override write_input received {} calls, the recording driver {}", calls.len(), base.calls.len()),
        ));
    }
    for (k, (a, b)) in calls.iter().zip(&base.calls).enumerate() {
        if !a.reads || a.inputs != b.inputs {
            return Some(Finding::new(
                "default-write-input-calls-differ",
                format!("call #{k}: through the trait default the device received {:?} (output-reading: {}), the recording driver {:?}", a.inputs, a.reads, b.inputs),
            ));
        }
    }
    acc.event("midclock_rows_through_trait_default", base.calls.iter().filter(|c| !c.reads).count() as u64);
    None
}
