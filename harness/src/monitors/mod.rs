//! Property monitors. Each monitor turns one case seed into one or more executions of the
//! real crate, observes them at the boundary and decides its property on that history.

use crate::acc::Acc;
use crate::compare::*;
use crate::model::*;
use crate::pp::{self, Printed};
use crate::realrun::*;
use crate::refint::{self, RefOpts, RefOutcome, RefTrace};
use serde_json::{json, Value};

pub mod c01;

pub struct Meta {
    pub id: &'static str,
    pub level: &'static str,
    pub rule: &'static str,
    pub assumptions: &'static [&'static str],
    /// cases per build profile
    pub quick_cases: u64,
    pub thorough_cases: u64,
    /// minimum number of distinct non-trivial cases a run must observe (else exit 2)
    pub floor: u64,
}

pub fn meta(prop: &str) -> Option<Meta> {
    Some(match prop {
        "C01" => c01::META,
        _ => return None,
    })
}

pub fn run_case(prop: &str, case_seed: u64, acc: &mut Acc) {
    match prop {
        "C01" => c01::run(case_seed, acc),
        _ => panic!("unknown property {prop}"),
    }
}

/// Deterministic sub-spaces enumerated once per run (by shard 0 of each profile).
pub fn run_exhaustive(prop: &str, tier: &str, acc: &mut Acc) -> Value {
    match prop {
        "C01" => c01::exhaustive(tier, acc),
        _ => json!(null),
    }
}

// ------------------------------------------------------------------------------------------
// shared helpers

pub fn case_json(case: &Case, pr: &Printed) -> Value {
    json!({
        "text": pr.text,
        "signals": case.signals,
        "script": case.script,
        "rng_seed": case.rng_seed.to_string(),
    })
}

pub fn case_hash(case: &Case, pr: &Printed) -> u64 {
    let s = serde_json::to_string(&(&pr.text, &case.signals, &case.script)).unwrap();
    crate::prng::hash_bytes(s.as_bytes())
}

pub struct Ran {
    pub pr: Printed,
    pub rf: Box<RefTrace>,
    pub real: RealTrace,
}

/// Reference first (its verdict on feasibility decides whether the case is run at all),
/// then the real crate with the same script. Counts events into `acc`.
pub fn standard_run(case: &Case, acc: &mut Acc, opts: Option<RefOpts>) -> Option<Ran> {
    let pr = pp::print(&case.program, &case.layout_opts);
    let rf = match refint::run(
        &case.program,
        &case.signals,
        &case.script,
        opts.unwrap_or_default(),
    ) {
        RefOutcome::Done(t) => t,
        RefOutcome::Inconclusive(why) => {
            acc.inconclusive(&format!("reference: {why}"));
            return None;
        }
    };
    let real = run_text(
        &pr.text,
        &case.signals,
        &case.script,
        &RunOpts {
            max_steps: rf.items.len() + 6,
            probe_after_end: 2,
            stop_at_error: true,
            seed: Some(case.rng_seed),
        },
    );
    count_events(acc, &real);
    Some(Ran { pr, rf, real })
}

pub fn count_events(acc: &mut Acc, real: &RealTrace) {
    acc.evaluations += 1;
    acc.event("next_calls", real.steps.len() as u64);
    acc.event("device_calls", real.calls.len() as u64);
    acc.event(
        "rows_observed",
        real.steps
            .iter()
            .filter(|s| matches!(s.item, RealItem::Row(_)))
            .count() as u64,
    );
    acc.event(
        "error_items_observed",
        real.steps
            .iter()
            .filter(|s| matches!(s.item, RealItem::ErrDriver { .. } | RealItem::ErrRuntime(_)))
            .count() as u64,
    );
    acc.event(
        "draws_logged",
        real.steps.iter().map(|s| s.draws.len() as u64).sum(),
    );
}

pub fn sample_json(case: &Case, ran: &Ran) -> Value {
    json!({
        "text": ran.pr.text,
        "signals": case.signals.iter().map(|s| format!("{}:{}:{:?}", s.name, s.bits, s.kind)).collect::<Vec<_>>(),
        "device": {"layout": case.script.layout, "values": case.script.values, "override_write": case.script.override_write},
        "prescribed_items": ran.rf.items.len(),
        "observed_steps": ran.real.steps.len(),
        "device_calls": ran.real.calls.len(),
    })
}

pub fn first_some<T>(xs: Vec<Option<T>>) -> Option<T> {
    xs.into_iter().flatten().next()
}
