//! Property monitors. Each monitor turns one case seed into one or more executions of the
//! real crate, observes them at the boundary and decides its property on that history.

use crate::acc::Acc;
use crate::compare::*;
use crate::model::*;
use crate::pp::{self, Printed};
use crate::realrun::*;
use crate::refint::{self, RefOpts, RefOutcome, RefTrace};
use serde_json::{json, Value};

pub mod binding;
pub mod c01;
pub mod determinism;
pub mod digfile;
pub mod dynamic;
pub mod faults;
pub mod hazard;
pub mod text;
pub mod values;

pub struct Meta {
    pub id: &'static str,
    pub level: &'static str,
    pub rule: &'static str,
    pub assumptions: &'static [&'static str],
    /// cases per build profile
    pub quick_cases: u64,
    pub thorough_cases: u64,
    /// minimum number of distinct non-trivial cases a run must observe (else exit 2)
    pub floor: u64,
}

pub fn meta(prop: &str) -> Option<Meta> {
    Some(match prop {
        "C01" => c01::META,
        "C02" => dynamic::META_C02,
        "C03" => dynamic::META_C03,
        "C04" => dynamic::META_C04,
        "C05" => dynamic::META_C05,
        "C06" => dynamic::META_C06,
        "C07" => values::META_C07,
        "C08" => values::META_C08,
        "C10" => hazard::META_C10,
        "C17" => hazard::META_C17,
        "C11" => binding::META_C11,
        "C16" => digfile::META_C16,
        "C09" => text::META_C09,
        "C12" => text::META_C12,
        "C20" => text::META_C20,
        "C13" => faults::META_C13,
        "C15" => determinism::META_C15,
        "C14" => dynamic::META_C14,
        "C18" => dynamic::META_C18,
        "C19" => dynamic::META_C19,
        _ => return None,
    })
}

pub fn run_case(prop: &str, index: u64, case_seed: u64, acc: &mut Acc) {
    acc.cur_index = index;
    match prop {
        "C01" => c01::run_indexed(index, case_seed, acc),
        "C02" => dynamic::c02(case_seed, acc),
        "C03" => dynamic::c03(case_seed, acc),
        "C04" => dynamic::c04(case_seed, acc),
        "C05" => dynamic::c05(case_seed, acc),
        "C06" => dynamic::c06(case_seed, acc),
        "C07" => values::c07(index, case_seed, acc),
        "C08" => values::c08(case_seed, acc),
        "C10" => hazard::c10(case_seed, acc),
        "C17" => hazard::c17(case_seed, acc),
        "C11" => binding::c11(case_seed, acc),
        "C16" => digfile::c16(case_seed, acc),
        "C09" => text::c09(case_seed, acc),
        "C12" => text::c12(case_seed, acc),
        "C20" => text::c20(case_seed, if acc.thorough { 8 } else { 4 }, acc),
        "C13" => faults::c13(case_seed, acc),
        "C15" => determinism::c15(case_seed, acc),
        "C14" => dynamic::c14(case_seed, acc),
        "C18" => dynamic::c18(case_seed, acc),
        "C19" => dynamic::c19(case_seed, acc),
        _ => panic!("unknown property {prop}"),
    }
}

/// Deterministic sub-spaces enumerated once per run (by shard 0 of each profile).
pub fn run_exhaustive(prop: &str, tier: &str, acc: &mut Acc) -> Value {
    match prop {
        "C01" => c01::exhaustive(tier, acc),
        "C03" => dynamic::c03_exhaustive(acc),
        "C04" => dynamic::fixture_counter(acc),
        "C05" => dynamic::c05_exhaustive(tier, acc),
        "C08" => values::c08_exhaustive(tier, acc),
        "C09" => text::c09_exhaustive(tier, acc),
        "C10" => hazard::c10_exhaustive(acc),
        "C16" => digfile::c16_exhaustive(acc),
        _ => json!(null),
    }
}

// ------------------------------------------------------------------------------------------
// shared helpers

pub fn case_json(case: &Case, pr: &Printed) -> Value {
    json!({
        "text": pr.text,
        "signals": case.signals,
        "script": case.script,
        "rng_seed": case.rng_seed.to_string(),
    })
}

pub fn case_hash(case: &Case, pr: &Printed) -> u64 {
    let s = serde_json::to_string(&(&pr.text, &case.signals, &case.script)).unwrap();
    crate::prng::hash_bytes(s.as_bytes())
}

pub struct Ran {
    pub pr: Printed,
    pub rf: Box<RefTrace>,
    pub real: RealTrace,
}

/// Flatten the per-step hook logs into the sequence the reference consumes.
pub fn flatten_draws(real: &RealTrace) -> Vec<crate::refint::Draw> {
    let mut v = vec![];
    for st in &real.steps {
        for d in &st.draws {
            match d {
                DrawRec::NewContext(_) => {}
                DrawRec::Reset => v.push(crate::refint::Draw::Reset),
                DrawRec::Draw { bound, value } => v.push(crate::refint::Draw::Draw {
                    bound: *bound,
                    value: *value,
                }),
            }
        }
    }
    v
}

pub const REAL_STEP_CAP: usize = 450;

/// Would the program finish within the budgets (draws faked at their maximum)? Monitors that run
/// the real crate without a full reference history ask this first, so that a program which
/// legitimately spins for ages inside one next() is never handed to the crate.
pub fn preflight_ok(case: &Case, acc: &mut Acc) -> bool {
    let pre = RefOpts { fake_draws: true, max_rows: 300, max_steps: 4000, ..Default::default() };
    match refint::run(&case.program, &case.signals, &case.script, pre) {
        RefOutcome::Inconclusive(why) if !why.starts_with("let rebinds") => {
            acc.inconclusive(&format!("reference pre-flight: {why}"));
            false
        }
        _ => true,
    }
}

/// Reference first (its verdict on feasibility decides whether the case is run at all),
/// then the real crate with the same script. For programs using `random` the real run goes
/// first (seed pinned through the hook) and the reference replays its draw log.
/// Counts events into `acc`.
pub fn standard_run(case: &Case, acc: &mut Acc, opts: Option<RefOpts>) -> Option<Ran> {
    let pr = pp::print(&case.program, &case.layout_opts);
    if case.program.uses_random() {
        // pre-flight: would the program finish within the budgets if every draw came out as
        // large as it can? If not, the real crate is not run at all (it could spin for ages
        // inside one next(), legitimately).
        let pre = RefOpts { fake_draws: true, max_rows: 300, max_steps: 4000, ..Default::default() };
        if let RefOutcome::Inconclusive(why) = refint::run(&case.program, &case.signals, &case.script, pre) {
            acc.inconclusive(&format!("reference pre-flight: {why}"));
            return None;
        }
        let real = run_text(
            &pr.text,
            &case.signals,
            &case.script,
            &RunOpts {
                max_steps: REAL_STEP_CAP,
                probe_after_end: 2,
                stop_at_error: true,
                seed: Some(case.rng_seed),
                continue_on: None,
            },
        );
        if real.steps.len() >= REAL_STEP_CAP {
            acc.inconclusive("real run reached the step cap (program too long)");
            return None;
        }
        let mut o = opts.unwrap_or_default();
        o.draws = Some(flatten_draws(&real));
        // the real run above stopped at its first error item
        o.continue_after_row_errors = false;
        let rf = match refint::run(&case.program, &case.signals, &case.script, o) {
            RefOutcome::Done(t) => t,
            RefOutcome::Inconclusive(why) => {
                acc.inconclusive(&format!("reference: {why}"));
                return None;
            }
        };
        count_events(acc, &real);
        return Some(Ran { pr, rf, real });
    }
    let rf = match refint::run(
        &case.program,
        &case.signals,
        &case.script,
        opts.unwrap_or_default(),
    ) {
        RefOutcome::Done(t) => t,
        RefOutcome::Inconclusive(why) => {
            acc.inconclusive(&format!("reference: {why}"));
            return None;
        }
    };
    let real = run_text(
        &pr.text,
        &case.signals,
        &case.script,
        &RunOpts {
            max_steps: rf.items.len() + 6,
            probe_after_end: 2,
            stop_at_error: true,
            seed: Some(case.rng_seed),
            // the caller model goes on after row-level errors (failed call of a row, virtual
            // signal of a row not evaluable) exactly where the reference does
            continue_on: Some(
                rf.items
                    .iter()
                    .enumerate()
                    .map(|(k, _)| rf.err_vars.contains_key(&k))
                    .collect(),
            ),
        },
    );
    count_events(acc, &real);
    Some(Ran { pr, rf, real })
}

/// Draw accounting (C17 b/c): the reference must have consumed the hook log exactly.
pub fn draw_accounting(ran: &Ran) -> Option<Finding> {
    if let Some(crate::refint::RefItem::Err(crate::refint::RefErr::NotImplemented(m))) = ran.rf.items.last() {
        if m.starts_with("draw-accounting") {
            return Some(Finding::new("draw-accounting", m.clone()));
        }
    }
    if ran.rf.draws_left > 0 {
        return Some(Finding::new(
            "draw-accounting",
            format!("{} logged draw/reset events are not accounted for by any evaluation the program prescribes", ran.rf.draws_left),
        ));
    }
    None
}

pub fn count_events(acc: &mut Acc, real: &RealTrace) {
    acc.evaluations += 1;
    acc.event("next_calls", real.steps.len() as u64);
    acc.event("device_calls", real.calls.len() as u64);
    acc.event(
        "rows_observed",
        real.steps
            .iter()
            .filter(|s| matches!(s.item, RealItem::Row(_)))
            .count() as u64,
    );
    acc.event(
        "error_items_observed",
        real.steps
            .iter()
            .filter(|s| matches!(s.item, RealItem::ErrDriver { .. } | RealItem::ErrRuntime(_)))
            .count() as u64,
    );
    acc.event(
        "draws_logged",
        real.steps.iter().map(|s| s.draws.len() as u64).sum(),
    );
}

pub fn sample_json(case: &Case, ran: &Ran) -> Value {
    json!({
        "text": ran.pr.text,
        "signals": case.signals.iter().map(|s| format!("{}:{}:{:?}", s.name, s.bits, s.kind)).collect::<Vec<_>>(),
        "device": {"layout": case.script.layout, "values": case.script.values, "override_write": case.script.override_write},
        "prescribed_items": ran.rf.items.len(),
        "observed_steps": ran.real.steps.len(),
        "device_calls": ran.real.calls.len(),
    })
}

pub fn first_some<T>(xs: Vec<Option<T>>) -> Option<T> {
    xs.into_iter().flatten().next()
}
