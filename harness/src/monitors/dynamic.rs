//! Monitors that share the "reference first, then real run, then oracles" shape:
//! C02, C03, C04, C05, C06, C14, C18.

use super::*;
use std::collections::BTreeMap;
use crate::gen::{self, GenCfg};
use crate::prng::Prng;
use crate::refint::RefItem;

type Oracle = fn(&Case, &Ran) -> Option<Finding>;

fn o_accepted(_c: &Case, r: &Ran) -> Option<Finding> {
    accepted(&r.real)
}
fn o_rows(_c: &Case, r: &Ran) -> Option<Finding> {
    diff_items(&r.pr, &r.rf, &r.real, Aspects::rows())
}
fn o_protocol(_c: &Case, r: &Ran) -> Option<Finding> {
    first_some(vec![construct_agrees(&r.rf, &r.real), protocol(&r.rf, &r.real)])
}
fn o_attribution(c: &Case, r: &Ran) -> Option<Finding> {
    attribution(&c.signals, &r.real)
}
fn o_outputs(_c: &Case, r: &Ran) -> Option<Finding> {
    diff_items(
        &r.pr,
        &r.rf,
        &r.real,
        Aspects {
            outputs: true,
            kinds: true,
            ..Default::default()
        },
    )
}
fn o_binding(c: &Case, r: &Ran) -> Option<Finding> {
    binding_structure(c, &r.real)
}
fn o_inputs_expected(_c: &Case, r: &Ran) -> Option<Finding> {
    diff_items(
        &r.pr,
        &r.rf,
        &r.real,
        Aspects {
            inputs: true,
            expected: true,
            kinds: true,
            ..Default::default()
        },
    )
}
fn o_virtual(_c: &Case, r: &Ran) -> Option<Finding> {
    // "an additional 64-bit output": the signal the row entries point to says so too
    // (survivor of the operator-mutation sweep: `bits: 64` -> `bits: 65` for declared signals)
    if let Some(v) = r.real.signals.iter().find(|s| s.kind == "virtual" && s.bits != 64) {
        return Some(Finding::new("virtual-signal-width", format!("virtual signal {} is listed with {} bits", v.name, v.bits)));
    }
    diff_items(
        &r.pr,
        &r.rf,
        &r.real,
        Aspects {
            virtual_only: true,
            expected: true,
            kinds: true,
            ..Default::default()
        },
    )
}
fn o_vars(_c: &Case, r: &Ran) -> Option<Finding> {
    let f = diff_items(
        &r.pr,
        &r.rf,
        &r.real,
        Aspects {
            vars: true,
            kinds: true,
            ..Default::default()
        },
    );
    if f.is_some() {
        return f;
    }
    // outputs / virtual signals never appear unless a variable of that name is in scope:
    // implied by equality with the reference frame stack. After the end, vars() must be
    // the top-level frame (all loop frames gone).
    None
}

pub fn run_oracles(
    case: &Case,
    case_seed: u64,
    variant: &str,
    acc: &mut Acc,
    oracles: &[Oracle],
    nontrivial: fn(&Case, &Ran) -> bool,
    tagger: fn(&Case, &Ran, &mut Acc),
) -> Option<Ran> {
    run_oracles_opts(case, case_seed, variant, acc, None, oracles, nontrivial, tagger)
}

#[allow(clippy::too_many_arguments)]
pub fn run_oracles_opts(
    case: &Case,
    case_seed: u64,
    variant: &str,
    acc: &mut Acc,
    opts: Option<crate::refint::RefOpts>,
    oracles: &[Oracle],
    nontrivial: fn(&Case, &Ran) -> bool,
    tagger: fn(&Case, &Ran, &mut Acc),
) -> Option<Ran> {
    acc.cases += 1;
    let ran = standard_run(case, acc, opts)?;
    let h = case_hash(case, &ran.pr);
    acc.distinct.insert(h);
    for o in oracles {
        if let Some(f) = o(case, &ran) {
            acc.violation(case_seed, variant, f, case_json(case, &ran.pr));
            return Some(ran);
        }
    }
    acc.held += 1;
    acc.event("rows_compared", ran.rf.stats.rows as u64);
    tagger(case, &ran, acc);
    if nontrivial(case, &ran) {
        acc.nontrivial.insert(h);
        acc.sample(|| sample_json(case, &ran));
    }
    Some(ran)
}

/// Adds a driver error at a random call index of the fault-free run (or none).
pub fn maybe_fault(case: &mut Case, r: &mut Prng, per_mille: u32) {
    if !r.chance(per_mille, 1000) {
        return;
    }
    if let crate::refint::RefOutcome::Done(t) = crate::refint::run(
        &case.program,
        &case.signals,
        &case.script,
        Default::default(),
    ) {
        let n = t.calls.len();
        if n > 0 {
            let at = if r.chance(100, 1000) { 0 } else { r.below(n) };
            case.script.faults.push((at, Fault::Error(r.next_u64() >> 1)));
            // now and then two or three refusals in one run (adjacent calls included): what the
            // first one leaves behind meets the second
            if at > 0 && n > 2 && r.chance(300, 1000) {
                for _ in 0..1 + r.below(2) {
                    let at2 = if r.chance(1, 2) { (at + 1).min(n - 1) } else { 1 + r.below(n - 1) };
                    if !case.script.faults.iter().any(|f| f.0 == at2) {
                        case.script.faults.push((at2, Fault::Error(r.next_u64() >> 1)));
                    }
                }
            }
        }
    }
}

/// A driver that, once, returns its outputs in another order (same signals): the row is an
/// error item; everything after it must be as if nothing had happened.
fn maybe_reorder(case: &mut Case, r: &mut Prng, per_mille: u32) {
    if case.script.layout.len() < 2 || !case.script.faults.is_empty() || !r.chance(per_mille, 1000) {
        return;
    }
    if let crate::refint::RefOutcome::Done(t) = crate::refint::run(&case.program, &case.signals, &case.script, Default::default()) {
        let checked: Vec<usize> = t.calls.iter().enumerate().skip(1).filter(|(_, c)| c.reads).map(|(i, _)| i).collect();
        if !checked.is_empty() {
            let at = *r.pick(&checked);
            let a = r.below(case.script.layout.len());
            let b = (a + 1 + r.below(case.script.layout.len() - 1)) % case.script.layout.len();
            case.script.faults.push((at, Fault::Swap(a, b)));
        }
    }
}

/// Two (or three) rows on DIFFERENT source lines whose entries are identical and hold >= 4 X on
/// input columns: everything about them is equal except the line they come from.
pub fn plant_twin_x_rows(case: &mut Case, r: &mut Prng) -> bool {
    let is_input_col: Vec<bool> = case.program.header.iter().map(|h| case.signals.iter().any(|s| &s.name == h && s.is_input())).collect();
    let mut found = None;
    for (i, it) in case.program.items.iter().enumerate() {
        if let Item::Row(_, es) = it {
            let mut col = 0;
            let mut cand = vec![];
            for (k, e) in es.iter().enumerate() {
                if e.width() == 1 && is_input_col.get(col) == Some(&true) && matches!(e, Entry::Lit(..) | Entry::X(_) | Entry::Z(_)) {
                    cand.push(k);
                }
                col += e.width();
            }
            if cand.len() >= 4 {
                found = Some((i, cand));
                break;
            }
        }
    }
    let Some((i, mut cand)) = found else { return false };
    r.shuffle(&mut cand);
    let nx = 4 + r.below(2).min(cand.len() - 4);
    let Item::Row(_, es) = &mut case.program.items[i] else { return false };
    for &k in cand.iter().take(nx) {
        es[k] = Entry::X(false);
    }
    // literal-only twin: entries that evaluate alike whenever they are evaluated
    if es.iter().any(|e| matches!(e, Entry::Paren(_) | Entry::Bits(..))) {
        return false;
    }
    let twin = Item::Row(0, es.clone());
    let mut at = i + 1;
    if r.chance(1, 2) {
        case.program.items.insert(at, if r.chance(1, 2) { Item::Blank } else { Item::Comment(" twin follows".into()) });
        at += 1;
    }
    case.program.items.insert(at, twin.clone());
    if r.chance(1, 2) {
        case.program.items.push(twin);
    }
    let mut next = 0;
    renumber(&mut case.program.items, &mut next);
    true
}

/// A small program built around twin rows: rows on different source lines with identical
/// literal entries and 4-5 X on input columns, with other statements between them.
pub fn twin_x_case(r: &mut Prng) -> Case {
    let n_in = 5 + r.below(3);
    let mut sigs: Vec<Sig> = (0..n_in).map(|i| Sig { name: format!("I{i}"), bits: 1, kind: SigKind::In(InVal::V(0)) }).collect();
    sigs.push(Sig { name: "O".into(), bits: 4, kind: SigKind::Out });
    let header: Vec<String> = sigs.iter().map(|s| s.name.clone()).collect();
    let nx = 4 + r.below(2);
    let mut xs: Vec<usize> = (0..n_in).collect();
    r.shuffle(&mut xs);
    xs.truncate(nx);
    let twin: Vec<Entry> = (0..n_in)
        .map(|i| if xs.contains(&i) { Entry::X(false) } else { Entry::Lit(r.range(0, 1), Radix::Dec) })
        .chain(std::iter::once(Entry::X(false)))
        .collect();
    let mut plain: Vec<Entry> = (0..n_in).map(|_| Entry::Lit(r.range(0, 1), Radix::Dec)).collect();
    plain.push(Entry::Lit(r.range(0, 9), Radix::Dec));
    let mut items = vec![];
    if r.chance(1, 2) {
        items.push(Item::Row(0, plain.clone()));
    }
    items.push(Item::Row(0, twin.clone()));
    match r.below(4) {
        0 => {}
        1 => items.push(Item::Blank),
        2 => items.push(Item::Comment(" the same row again".into())),
        _ => items.push(Item::Let("k".into(), Expr::Num(3, Radix::Dec))),
    }
    items.push(Item::Row(0, twin.clone()));
    if r.chance(1, 2) {
        items.push(Item::Loop("i".into(), Expr::Num(2, Radix::Dec), vec![Item::Row(0, twin.clone())]));
    }
    if r.chance(1, 2) {
        items.push(Item::Row(0, plain));
        items.push(Item::Row(0, twin));
    }
    let mut next = 0;
    renumber(&mut items, &mut next);
    Case {
        program: Program { header, items },
        signals: sigs,
        script: Script { layout: vec![n_in], values: ValueFn::Small { salt: r.next_u64(), modulus: 16 }, faults: vec![], override_write: r.chance(1, 2), rebuild_signals: false },
        layout_opts: crate::pp::Layout::plain(),
        rng_seed: 1,
    }
}

/// A driver that, once, answers a checked row with MORE than its layout: an unknown signal, an
/// input signal, or one entry twice. The row is an error item (wrong number of outputs); every
/// signal still has its value, so everything after it is prescribed (2.10).
pub fn maybe_superset(case: &mut Case, r: &mut Prng, per_mille: u32) {
    if !case.script.faults.is_empty() || !r.chance(per_mille, 1000) {
        return;
    }
    if let crate::refint::RefOutcome::Done(t) = crate::refint::run(&case.program, &case.signals, &case.script, Default::default()) {
        let checked: Vec<usize> = t.calls.iter().enumerate().skip(1).filter(|(_, c)| c.reads).map(|(i, _)| i).collect();
        if !checked.is_empty() {
            let at = *r.pick(&checked);
            let ins: Vec<usize> = (0..case.signals.len()).filter(|&i| matches!(case.signals[i].kind, SigKind::In(_))).collect();
            let f = match r.below(3) {
                0 if !ins.is_empty() => Fault::AddInput(*r.pick(&ins)),
                1 if !case.script.layout.is_empty() => Fault::Duplicate(r.below(case.script.layout.len())),
                _ => Fault::AddUnknown,
            };
            case.script.faults.push((at, f));
        }
    }
}

// ----------------------------------------------------------------------------------- C02

pub const META_C02: Meta = Meta {
    id: "C02",
    level: "exploration",
    rule: "Cases from profiles `flow`+`expand` (C/X rows, loops) with both driver variants (overriding write_input or not), random output layouts and, in 35% of cases, a driver error injected at a random call index. The recording driver logs every call before answering. Online protocol oracle after every step: constructor = exactly one output-reading call with all input-capable signals at default and changed=false; each row = exactly one call whose input list is element-wise identical (signal, value, changed) to row.inputs; output-reading call for checked rows, write_input for mid-clock rows (empty outputs); driver-error item = exactly the failing call; End = no call; nothing after End; every logged call accounted for; device-side vectors equal the prescribed ones. 40% of the error-free cases are run again with the caller consuming the iterator through nth(k) / by_ref().skip(k).next() / step_by(s) / count() / last() / collect() / for_each / fold / find (try_fold) / filter+map: the driver's call log must equal the plain run's call for call and every delivered item must be the plain run's item at that position; 25% are run against a driver TYPE that implements only the required method, so that mid-clock rows go through the trait's own default write_input (same items, same number of calls, same inputs, every call output-reading). About 3 cases in 10 000 are a single loop of 2^16 + 1..300 rows (more rows and calls than a 16-bit counter holds), decided directly: row k carries (k & 1, k >> 8 & 1), one output-reading call per row, nothing after the end. One case in eight builds its iterator through the deprecated alias run_iter (same oracle). One long run in three is a loop of 21 846+ clock rows (more than 2^16 driver calls, two thirds write-only), decided from the text. Non-trivial = >= 3 rows, call log >= 4, and a C expansion or an injected fault.",
    assumptions: &[
        "the recording driver sees every call the crate makes (it is the only TestDriver instance)",
        "reference interpreter decides which rows are checked / mid-clock",
    ],
    quick_cases: 150000,
    thorough_cases: 2000000,
    floor: 6000,
};

pub fn profile_expand() -> GenCfg {
    let mut c = GenCfg::base();
    c.w_in = [30, 20, 22, 4, 24];
    c.one_bit_inputs = 600;
    c.n_in = (1, 4);
    c.max_depth = 3;
    c.w_let = 12;
    c.w_row = 60;
    c.bits_entries = 80;
    c
}

/// A run of 2^16 + a few rows (one loop, one row in it): more rows and driver calls than a 16-bit
/// counter holds. Decided without the reference: row k carries (k & 1, k >> 8 & 1), one call
/// per row, all of them output-reading, nothing after the end.
/// A long run of clock rows: 3 x 21 846+ rows, more than 2^16 driver calls, two thirds of them
/// write-only. Decided directly from the text.
fn c02_long_clock_run(case_seed: u64, r: &mut Prng, acc: &mut Acc) {
    let n = 21846 + r.below(200);
    let text = format!("A B Q\nloop(i,{n})\nC ((i >> 8) & 1) X\nend loop\n");
    let sigs = vec![
        Sig { name: "A".into(), bits: 1, kind: SigKind::In(InVal::V(0)) },
        Sig { name: "B".into(), bits: 1, kind: SigKind::In(InVal::V(0)) },
        Sig { name: "Q".into(), bits: 8, kind: SigKind::Out },
    ];
    let script = Script { layout: vec![2], values: ValueFn::Small { salt: 1, modulus: 200 }, faults: vec![], override_write: r.chance(1, 2), rebuild_signals: false };
    NEVER_CALL_VARS.with(|c| c.set(true));
    let real = run_text(&text, &sigs, &script, &RunOpts { max_steps: 3 * n + 10, probe_after_end: 1, stop_at_error: true, seed: Some(1), continue_on: None });
    NEVER_CALL_VARS.with(|c| c.set(false));
    acc.evaluations += 1;
    acc.event("rows_in_runs_longer_than_2^16", real.steps.len() as u64);
    let mut f = no_panic(&real);
    if f.is_none() {
        let rows = real.steps.iter().take_while(|s| matches!(s.item, RealItem::Row(_))).count();
        if rows != 3 * n || real.steps.len() != 3 * n + 2 {
            f = Some(Finding::new("long-run-row-count", format!("loop(i,{n}) with one clock row: {rows} rows, {} items", real.steps.len())));
        } else if real.calls.len() != 3 * n + 1 {
            f = Some(Finding::new("long-run-calls", format!("{} rows: {} driver calls", 3 * n, real.calls.len())));
        } else {
            for (k, st) in real.steps[..3 * n].iter().enumerate() {
                let RealItem::Row(row) = &st.item else { unreachable!() };
                let pass = k / 3;
                let phase = k % 3;
                let want = [InVal::V((phase == 1) as i64), InVal::V(((pass >> 8) & 1) as i64)];
                let got: Vec<InVal> = row.inputs.iter().map(|i| i.1).collect();
                let call: Vec<InVal> = real.calls[k + 1].inputs.iter().map(|i| i.2).collect();
                let checked = phase == 2;
                if got != want || call != want || row.line != 3 || st.calls != (k + 1, k + 2) || real.calls[k + 1].reads != checked || row.outputs.is_empty() == checked {
                    f = Some(Finding::new(
                        "long-run-row",
                        format!("row {k} of {} (pass {pass}, clock phase {phase}): inputs {got:?}, driver received {call:?} through the {} call, {} outputs, line {}, calls {:?}; wanted {want:?}, line 3", 3 * n, if real.calls[k + 1].reads { "output-reading" } else { "write-only" }, row.outputs.len(), row.line, st.calls),
                    ));
                    break;
                }
            }
        }
    }
    match f {
        Some(f) => acc.violation(case_seed, "long-clock-run", f, json!({"text": text})),
        None => acc.held += 1,
    }
}

fn c02_long_run(case_seed: u64, r: &mut Prng, acc: &mut Acc) {
    if r.chance(1, 3) {
        return c02_long_clock_run(case_seed, r, acc);
    }
    let n = (1usize << 16) + 1 + r.below(300);
    let text = format!("A B Q\nloop(i,{n})\n(i & 1) ((i >> 8) & 1) X\nend loop\n");
    let sigs = vec![
        Sig { name: "A".into(), bits: 1, kind: SigKind::In(InVal::V(0)) },
        Sig { name: "B".into(), bits: 1, kind: SigKind::In(InVal::V(0)) },
        Sig { name: "Q".into(), bits: 8, kind: SigKind::Out },
    ];
    let script = Script { layout: vec![2], values: ValueFn::Small { salt: 1, modulus: 200 }, faults: vec![], override_write: r.chance(1, 2), rebuild_signals: false };
    NEVER_CALL_VARS.with(|c| c.set(true));
    let real = run_text(&text, &sigs, &script, &RunOpts { max_steps: n + 10, probe_after_end: 1, stop_at_error: true, seed: Some(1), continue_on: None });
    NEVER_CALL_VARS.with(|c| c.set(false));
    acc.evaluations += 1;
    acc.event("rows_in_runs_longer_than_2^16", real.steps.len() as u64);
    let mut f = no_panic(&real);
    if f.is_none() {
        let rows = real.steps.iter().take_while(|s| matches!(s.item, RealItem::Row(_))).count();
        if rows != n || real.steps.len() != n + 2 || real.steps[n..].iter().any(|s| s.item != RealItem::End) {
            f = Some(Finding::new("long-run-row-count", format!("loop(i,{n}) with one row: {rows} rows, {} items", real.steps.len())));
        } else if real.calls.len() != n + 1 || real.calls.iter().any(|c| !c.reads) {
            f = Some(Finding::new("long-run-calls", format!("{n} rows: {} driver calls, {} of them write-only", real.calls.len(), real.calls.iter().filter(|c| !c.reads).count())));
        } else {
            for (k, st) in real.steps[..n].iter().enumerate() {
                let RealItem::Row(row) = &st.item else { unreachable!() };
                let want = [InVal::V((k & 1) as i64), InVal::V(((k >> 8) & 1) as i64)];
                let got: Vec<InVal> = row.inputs.iter().map(|i| i.1).collect();
                let call: Vec<InVal> = real.calls[k + 1].inputs.iter().map(|i| i.2).collect();
                if got != want || call != want || row.line != 3 || st.calls != (k + 1, k + 2) {
                    f = Some(Finding::new("long-run-row", format!("row {k} of {n}: inputs {got:?}, driver received {call:?}, line {}, calls {:?}; wanted {want:?}, line 3", row.line, st.calls)));
                    break;
                }
            }
        }
    }
    match f {
        Some(f) => acc.violation(case_seed, "long-run", f, json!({"text": text})),
        None => acc.held += 1,
    }
}

pub fn c02(case_seed: u64, acc: &mut Acc) {
    let mut r = Prng::new(case_seed);
    if !cfg!(miri) && r.chance(3, 10000) {
        acc.cases += 1;
        return c02_long_run(case_seed, &mut r, acc);
    }
    let mut cfg = if r.chance(1, 2) { profile_expand() } else { super::c01::profile() };
    if r.chance(60, 1000) {
        // a signal list without any output-capable or virtual signal: checked rows then have
        // empty `outputs` too, but they are still sent with the output-reading call
        cfg.n_out = (0, 0);
        cfg.n_bidir = (0, 0);
        cfg.n_declares = (0, 0);
    }
    let mut case = gen::generate(&mut r, &cfg);
    maybe_fault(&mut case, &mut r, 350);
    let held_before = acc.held;
    // one case in eight enters through the deprecated alias `run_iter`: the protocol is that of
    // `try_iter` whichever entry point built the iterator (after seeded change U-C02-agent18-5)
    let alias = r.chance(1, 8);
    crate::realrun::ENTER_THROUGH_RUN_ITER.with(|c| c.set(alias));
    if alias {
        acc.tag("entered_through_run_iter");
    }
    let ran = run_oracles(
        &case,
        case_seed,
        if alias { "run_iter" } else { "gen" },
        acc,
        &[o_accepted, o_protocol, o_rows],
        |c, ran| {
            ran.rf.stats.rows >= 3
                && ran.real.calls.len() >= 4
                && (ran.rf.stats.c_expansions + ran.rf.stats.xc_expansions > 0 || !c.script.faults.is_empty())
        },
        |c, ran, acc| {
            acc.tag_n("driver_overrides_write_input", c.script.override_write as u64);
            acc.tag_n("no_output_capable_signal_at_all", !c.signals.iter().any(|s| s.is_output()) as u64);
            acc.tag_n("driver_rebuilds_signal_storage_per_call", c.script.rebuild_signals as u64);
            acc.tag_n("driver_forwards_write_input", !c.script.override_write as u64);
            acc.tag_n("fault_injected", !c.script.faults.is_empty() as u64);
            acc.tag_n("fault_at_constructor", c.script.faults.iter().any(|f| f.0 == 0) as u64);
            acc.tag_n("c_expansion", (ran.rf.stats.c_expansions + ran.rf.stats.xc_expansions > 0) as u64);
            acc.tag_n("midclock_calls", ran.real.calls.iter().filter(|c| !c.reads).count() as u64);
            acc.tag_n(
                "driver_error_items",
                ran.real.steps.iter().filter(|s| matches!(s.item, RealItem::ErrDriver { .. })).count() as u64,
            );
        },
    );
    crate::realrun::ENTER_THROUGH_RUN_ITER.with(|c| c.set(false));
    // the same program consumed through nth / skip / step_by / count / last
    if let Some(ran) = ran {
        if acc.held > held_before && r.chance(400, 1000) {
            if let Some(f) = super::adaptor_check(&case, &ran.pr, &ran.real, &mut r, acc) {
                acc.violation(case_seed, "gen", f, case_json(&case, &ran.pr));
                return;
            }
        }
        // ... and run against a driver that leaves write_input to the trait's default
        if acc.held > held_before && r.chance(250, 1000) {
            if let Some(f) = super::plain_driver_check(&case, &ran.pr, &ran.real, acc) {
                acc.violation(case_seed, "gen", f, case_json(&case, &ran.pr));
            }
        }
    }
}

// ----------------------------------------------------------------------------------- C03

pub const META_C03: Meta = Meta {
    id: "C03",
    level: "exploration",
    rule: "Cases from profile `attrib`: 1-6 output-capable signals (incl. bidirectional and 64-bit ones), device layout = random subset in random order, answers drawn per (call,signal) from unique 64-bit numbers / Z / X / boundary values / small numbers. For every checked row the oracle recomputes, from the recorded device answer of that very call, what each `outputs[j]` must be (value reported for the same signal, else X) and checks check(), is_checked() and failing_outputs() against the X/Z rules on the observed triple; the reference interpreter's prescribed outputs are compared as well. Shard 0 additionally runs the exhaustive table of ExpectedValue::check / OutputValue::check over 44x44 boundary values. 1.5% of the cases are a device with 9-70 outputs reported in a shuffled, non-alphabetical order, a third of them without a header column. Non-trivial = layout is a strict subset or a non-identity permutation, >= 2 output-capable signals and >= 2 checked rows.",
    assumptions: &["unique per-(call,signal) device values make stale or cross-wired values evident"],
    quick_cases: 150000,
    thorough_cases: 2000000,
    floor: 6000,
};

pub fn profile_attrib(r: &mut Prng) -> GenCfg {
    let mut c = GenCfg::base();
    c.n_out = (1, 5);
    c.n_bidir = (0, 2);
    c.widths = *r.pick(&[1, 3, 3, 2]);
    c.layout_mode = *r.pick(&[2, 2, 1, 0]);
    c.value_mode = *r.pick(&[0, 1, 1, 2, 2, 3]);
    c.mixed_rates = (120, 120, 250);
    c.w_exp = [45, 20, 20, 15];
    c.reads = 60;
    c.max_depth = 2;
    c.w_in = [50, 30, 5, 5, 10];
    c.one_bit_inputs = 300;
    c.list_virtuals = 150;
    if c.widths >= 2 {
        // wide inputs are C07/C10's subject; keep this monitor focused
        c.widths = 3;
    }
    c
}

pub fn c03(case_seed: u64, acc: &mut Acc) {
    let mut r = Prng::new(case_seed);
    let cfg = profile_attrib(&mut r);
    let mut case = gen::generate(&mut r, &cfg);
    if r.chance(15, 1000) {
        // a device with many outputs (9-70, past 8 / 16 / 32 / 64), reported in an order that is
        // neither the signal list's nor alphabetical, some of them without a header column
        // (after seeded change Y-C03-agent22-2: a lookup that switches to a sorted table above 16)
        let n = *r.pick(&[9usize, 15, 16, 17, 18, 20, 31, 32, 33, 40, 64, 65, 70]);
        let pool = ["Q", "b", "Zq", "a_", "OUT", "M", "y", "R", "cnt", "W"];
        let mut sigs = vec![Sig { name: "A".into(), bits: 4, kind: SigKind::In(InVal::V(0)) }];
        for i in 0..n {
            sigs.push(Sig { name: format!("{}{}", pool[(i * 7 + 3) % pool.len()], (i * 13 + 5) % 97), bits: 1 + r.below(16), kind: SigKind::Out });
        }
        r.shuffle(&mut sigs);
        let mut header: Vec<String> = sigs.iter().filter(|s| s.is_input() || r.chance(2, 3)).map(|s| s.name.clone()).collect();
        r.shuffle(&mut header);
        if !header.iter().any(|h| h == "A") {
            header.push("A".into());
        }
        let mut layout: Vec<usize> = (0..sigs.len()).filter(|&i| sigs[i].is_output()).collect();
        r.shuffle(&mut layout);
        if r.chance(1, 3) {
            layout.truncate(layout.len() - r.below(3));
        }
        let mut items = vec![];
        for id in 1..=3usize {
            let es: Vec<Entry> = header
                .iter()
                .map(|h| if h == "A" { Entry::Lit(id as i64, Radix::Dec) } else if r.chance(1, 4) { Entry::X(false) } else { Entry::Lit(r.range(0, 3), Radix::Dec) })
                .collect();
            items.push(Item::Row(id, es));
        }
        case = Case {
            program: Program { header, items },
            signals: sigs,
            script: Script { layout, values: ValueFn::Small { salt: r.next_u64(), modulus: 4 }, faults: vec![], override_write: false, rebuild_signals: r.chance(1, 4) },
            layout_opts: crate::pp::Layout::plain(),
            rng_seed: 1,
        };
        acc.tag("device_with_9_to_70_outputs_in_shuffled_order");
    }
    run_oracles(
        &case,
        case_seed,
        "gen",
        acc,
        &[o_accepted, o_attribution, o_outputs],
        |c, ran| {
            let outs: Vec<usize> = (0..c.signals.len()).filter(|&i| c.signals[i].is_output()).collect();
            outs.len() >= 2 && c.script.layout != outs && ran.rf.stats.checked_rows >= 2
        },
        |c, ran, acc| {
            let outs: Vec<usize> = (0..c.signals.len()).filter(|&i| c.signals[i].is_output()).collect();
            acc.tag_n("layout_strict_subset", (c.script.layout.len() < outs.len()) as u64);
            acc.tag_n("layout_empty", c.script.layout.is_empty() as u64);
            acc.tag_n("virtual_signal_inside_the_given_signal_list", c.signals.iter().any(|s| matches!(s.kind, SigKind::Virtual(_))) as u64);
            acc.tag_n("layout_permuted", (c.script.layout.len() == outs.len() && c.script.layout != outs) as u64);
            let mut z = 0;
            let mut x = 0;
            let mut pass = 0;
            let mut fail = 0;
            for st in &ran.real.steps {
                if let RealItem::Row(row) = &st.item {
                    for o in &row.outputs {
                        z += (o.1 == OutVal::Z) as u64;
                        x += (o.1 == OutVal::X) as u64;
                        if o.4 {
                            if o.3 {
                                pass += 1
                            } else {
                                fail += 1
                            }
                        }
                    }
                }
            }
            acc.event("output_entries_Z", z);
            acc.event("output_entries_X", x);
            acc.event("checked_entries_passing", pass);
            acc.event("checked_entries_failing", fail);
        },
    );
}

pub fn c03_exhaustive(acc: &mut Acc) -> Value {
    use digital_test_runner::{ExpectedValue, OutputValue};
    let mut vals: Vec<i64> = vec![i64::MIN, i64::MAX, i64::MIN + 1, i64::MAX - 1, -1, 0, 1, 2, -2];
    for k in [1u32, 7, 8, 15, 16, 31, 32, 33, 62, 63] {
        vals.push(1i64.wrapping_shl(k));
        vals.push(1i64.wrapping_shl(k).wrapping_sub(1));
        vals.push(1i64.wrapping_shl(k).wrapping_neg());
    }
    // values that agree in the low 32 bits only
    vals.push(0x1_0000_0005);
    vals.push(5);
    vals.sort();
    vals.dedup();
    let mut exps: Vec<ExpVal> = vec![ExpVal::X, ExpVal::Z];
    let mut outs: Vec<OutVal> = vec![OutVal::X, OutVal::Z];
    for v in &vals {
        exps.push(ExpVal::V(*v));
        outs.push(OutVal::V(*v));
    }
    let mut n = 0u64;
    for e in &exps {
        for o in &outs {
            let ee = match e {
                ExpVal::V(v) => ExpectedValue::Value(*v),
                ExpVal::Z => ExpectedValue::Z,
                ExpVal::X => ExpectedValue::X,
            };
            let oo: OutputValue = to_out(*o);
            let want = check_rule(*e, *o);
            let got1 = guarded(|| ee.check(oo));
            let got2 = guarded(|| oo.check(ee));
            n += 1;
            if got1 != Ok(want) || got2 != Ok(want) {
                acc.violation(
                    n,
                    "exhaustive",
                    Finding::new(
                        "check-table",
                        format!("ExpectedValue::check({e:?},{o:?}) = {got1:?}, OutputValue::check = {got2:?}, rule says {want}"),
                    ),
                    json!({"expected": e, "output": o}),
                );
            }
        }
    }
    // every subset x every permutation of the output-capable signals as device layout, for
    // 1..=4 output-capable signals (one of them bidirectional when there are >= 2)
    let mut layouts = 0u64;
    for n_out in 1..=4usize {
        let mut sigs = vec![Sig { name: "A".into(), bits: 4, kind: SigKind::In(InVal::V(0)) }];
        for k in 0..n_out {
            sigs.insert(
                if k % 2 == 0 { sigs.len() } else { 0 },
                Sig {
                    name: format!("O{k}"),
                    bits: [64, 8, 1, 13][k],
                    kind: if k == 1 { SigKind::Bidir(InVal::Z) } else { SigKind::Out },
                },
            );
        }
        let outs: Vec<usize> = (0..sigs.len()).filter(|&i| sigs[i].is_output()).collect();
        let header: Vec<String> = sigs
            .iter()
            .map(|s| if matches!(s.kind, SigKind::Bidir(_)) { format!("{}_out", s.name) } else { s.name.clone() })
            .collect();
        for mask in 0..(1u32 << outs.len()) {
            let subset: Vec<usize> = outs.iter().enumerate().filter(|(j, _)| mask >> j & 1 == 1).map(|(_, &i)| i).collect();
            // all permutations (Heap's algorithm, iterative)
            let mut perm = subset.clone();
            let mut c = vec![0usize; perm.len()];
            let mut perms = vec![perm.clone()];
            let mut i = 0;
            while i < perm.len() {
                if c[i] < i {
                    if i % 2 == 0 {
                        perm.swap(0, i);
                    } else {
                        perm.swap(c[i], i);
                    }
                    perms.push(perm.clone());
                    c[i] += 1;
                    i = 0;
                } else {
                    c[i] = 0;
                    i += 1;
                }
            }
            for (pi, layout) in perms.into_iter().enumerate() {
                let row = |id: usize, v: i64| {
                    Item::Row(
                        id,
                        sigs.iter()
                            .map(|s| if s.is_input() && !matches!(s.kind, SigKind::Bidir(_)) { Entry::Lit(v & 15, Radix::Dec) } else { [Entry::Lit(v, Radix::Dec), Entry::X(false), Entry::Z(false)][(id + s.bits) % 3].clone() })
                            .collect(),
                    )
                };
                let case = Case {
                    program: Program { header: header.clone(), items: vec![row(1, 1), row(2, 0), Item::Loop("i".into(), Expr::Num(2, Radix::Dec), vec![row(3, 5)])] },
                    signals: sigs.clone(),
                    script: Script {
                        layout,
                        values: if pi % 2 == 0 { ValueFn::Unique { salt: mask as u64, narrow: false } } else { ValueFn::Mixed { salt: pi as u64, z: 200, x: 200, edge: 200 } },
                        faults: vec![],
                        override_write: pi % 2 == 1, rebuild_signals: false,
                    },
                    layout_opts: crate::pp::Layout::plain(),
                    rng_seed: 1,
                };
                run_oracles(&case, layouts, "exhaustive-layouts", acc, &[o_accepted, o_attribution, o_outputs], |_, _| true, |_, _, _| {});
                layouts += 1;
            }
        }
    }
    json!({"check_table_pairs": n, "values": vals.len(), "all_subset_x_permutation_layouts_for_1..4_outputs": layouts})
}

// ----------------------------------------------------------------------------------- C04

pub const META_C04: Meta = Meta {
    id: "C04",
    level: "exploration",
    rule: "Cases from profile `feedback`: programs reading device outputs in row entries, let, loop bounds, while conditions and ite branches (45% of identifier leaves), same names used as variables and outputs, C rows between reads, feedback devices (DONE after d calls), device answers unique per (call,signal) with Z/X scheduled at ~4%. Variant `missing` removes one read output from the device layout. Oracle: device-side input vectors, row inputs and un-truncated expected values must equal those prescribed by the reference, which resolves an identifier as variable-in-scope first, else the answer of the latest output-reading call (constructor call initially, never a mid-clock write); a read of Z/X must make exactly that item a runtime error naming the signal; a missing read output must make try_iter fail after exactly one device call. 5% of the cases carry the same statement text in two scopes: a row / repeat row / let reading Q inside loop(Q,k) and, byte for byte the same, outside it where Q is a device output; expressions of the shape e OP e and cancelling pairs (-a * -b, (a+b)-b, a*0) occur in 3-4% of the inner nodes. A fifth of the whiles count in a variable and read an output on every check (while((w < k) & (Q | 1)) with a checked row in the body); after the error item of a failing while condition the caller asks once more and must not get a row. Non-trivial = >= 3 rows and >= 1 output read whose value differs between the two most recent output-reading calls (so a stale or early read would be visible).",
    assumptions: &["reference interpreter; unique answers make one-call-early / one-call-late reads visible"],
    quick_cases: 150000,
    thorough_cases: 2000000,
    floor: 8000,
};

pub fn profile_feedback(r: &mut Prng) -> GenCfg {
    let mut c = GenCfg::base();
    c.reads = 450;
    c.n_out = (1, 4);
    c.widths = 3;
    c.value_mode = *r.pick(&[0, 0, 1, 2]);
    c.mixed_rates = (20, 20, 150);
    c.w_in = [35, 45, 4, 3, 13];
    c.one_bit_inputs = 300;
    c.device_bounds = 250;
    c.layout_mode = 2;
    c.w_while = 10;
    c
}

pub fn c04(case_seed: u64, acc: &mut Acc) {
    let mut r = Prng::new(case_seed);
    let cfg = profile_feedback(&mut r);
    let mut case = gen::generate(&mut r, &cfg);
    let mut variant = "gen";
    if r.chance(50, 1000) && gen::plant_scope_twins(&mut case, &mut r).is_some() {
        // the same statement text inside a loop whose counter is named like an output and outside it
        acc.tag("planted_same_text_in_two_scopes");
    }
    if r.chance(80, 1000) {
        // remove one output the program reads from the device layout
        let reads = crate::scope::analyse(&case.program).output_reads;
        if let Some(name) = reads.first() {
            if let Some(i) = case.signals.iter().position(|s| s.name == *name) {
                case.script.layout.retain(|&l| l != i);
                variant = "missing";
            }
        }
    } else {
        // a failed driver call returns nothing: the values read before it stay the latest
        maybe_fault(&mut case, &mut r, 200);
        maybe_reorder(&mut case, &mut r, 60);
    maybe_superset(&mut case, &mut r, 60);
    }
    let ran = run_oracles(
        &case,
        case_seed,
        variant,
        acc,
        &[o_accepted, o_inputs_expected, o_protocol],
        |_c, ran| ran.rf.stats.rows >= 3 && ran.rf.stats.stale_sensitive_reads > 0,
        |_c, ran, acc| {
            let st = &ran.rf.stats;
            acc.tag_n("device_reads", st.device_reads as u64);
            acc.tag_n("stale_sensitive_reads", st.stale_sensitive_reads as u64);
            acc.tag_n("reads_after_midclock_write", st.reads_after_midclock as u64);
            acc.tag_n("zx_read_error_prescribed", ran.rf.items.iter().any(|i| matches!(i, RefItem::Err(crate::refint::RefErr::ReadZX(_)))) as u64);
            acc.tag_n("missing_output_ctor_error", ran.rf.construct_err.is_some() as u64);
            acc.tag_n("driver_error_injected", !_c.script.faults.is_empty() as u64);
        },
    );
    if let Some(ran) = ran {
        if variant == "missing" && ran.rf.construct_err.is_some() {
            // must fail after exactly one device call and before any row
            if ran.real.calls.len() != 1 || !ran.real.steps.is_empty() {
                acc.violation(
                    case_seed,
                    variant,
                    Finding::new("missing-output-late", format!("calls={} steps={}", ran.real.calls.len(), ran.real.steps.len())),
                    case_json(&case, &ran.pr),
                );
            } else {
                let h = case_hash(&case, &ran.pr);
                acc.nontrivial.insert(h);
            }
        }
    }
}

// ----------------------------------------------------------------------------------- C05

pub const META_C05: Meta = Meta {
    id: "C05",
    level: "exploration",
    rule: "Cases from profile `expand`: rows with 0-5 X and 0-3 C entries at any input positions (1-bit, multi-bit, bidirectional inputs), mixed with literals, expressions and bits(), at loop depth 0-3, permuted/partial headers. Oracle: the observed row sequence (inputs, expected, line, checked/mid-clock, call kind) equals the prescribed expansion: for a in 0..2^k (bit j of a drives the j-th X column from the left, so the leftmost varies fastest, 0 first), per assignment one checked row or the clock triple (C:=0 unchecked, C:=1 unchecked, C:=0 checked); expected X/Z never expanded. Shard 0 enumerates all rows of width <= 4 over {0,1,X,C,Z} on three configurations. Special shapes, 1-2% of the cases each: rows with 8-10 X (run to the end), rows with 11-130 X (counts just past 31 / 32 / 63 / 64 / 128; the crate expands lazily, the first 40-100 rows are compared), headers of 65-140 columns, twin rows on different lines with identical entries and >= 4 X. A further 1.2%: one row with 9-40 clock columns (past 8 / 16 / 32), some on multi-bit inputs, 0-2 X beside them. Non-trivial = a source row with >= 2 X, or >= 2 C, or X and C together, or an expansion inside a loop.",
    assumptions: &["reference interpreter"],
    quick_cases: 120000,
    thorough_cases: 1500000,
    floor: 6000,
};

pub fn c05(case_seed: u64, acc: &mut Acc) {
    let mut r = Prng::new(case_seed);
    if r.chance(15, 1000) {
        // wide rows: 9-11 one-bit inputs, one source row with 8-10 X (256-1024 assignments),
        // optionally a clock column (x3) - beyond what fits a u8 or a small fixed-size buffer
        let n = 9 + r.below(3);
        let mut sigs: Vec<Sig> = (0..n).map(|i| Sig { name: format!("I{i}"), bits: 1, kind: SigKind::In(InVal::V((i % 2) as i64)) }).collect();
        sigs.insert(r.below(n), Sig { name: "Q".into(), bits: 8, kind: SigKind::Out });
        let header: Vec<String> = sigs.iter().map(|s| s.name.clone()).collect();
        let nx = 8 + r.below(2);
        let with_c = r.chance(1, 3);
        let mut kinds: Vec<u8> = (0..n).map(|i| if i < nx { 1 } else { 0 }).collect();
        if with_c {
            kinds[n - 1] = 2;
        }
        r.shuffle(&mut kinds);
        let mut ki = 0;
        let entries: Vec<Entry> = sigs
            .iter()
            .map(|s| {
                if s.is_input() {
                    let k = kinds[ki];
                    ki += 1;
                    match k {
                        1 => Entry::X(false),
                        2 => Entry::C(false),
                        _ => Entry::Lit(1, Radix::Dec),
                    }
                } else {
                    Entry::Lit(5, Radix::Dec)
                }
            })
            .collect();
        let case = Case {
            program: Program { header, items: vec![Item::Row(1, entries.clone()), Item::Row(2, entries.iter().map(|e| if matches!(e, Entry::X(_)) { Entry::Lit(0, Radix::Dec) } else { e.clone() }).collect())] },
            signals: sigs,
            script: Script { layout: vec![], values: ValueFn::Unique { salt: 1, narrow: true }, faults: vec![], override_write: r.chance(1, 2), rebuild_signals: false },
            layout_opts: crate::pp::Layout::plain(),
            rng_seed: 1,
        };
        acc.tag("wide_row_8_to_10_X");
        c05_case_opts(&case, case_seed, "wide", acc, Some(crate::refint::RefOpts { max_rows: 3300, max_steps: 8000, ..Default::default() }));
        return;
    }
    if r.chance(12, 1000) {
        // many clock columns: 9-40 C entries in one row (past 8 / 16 / 32 - more than fits a small
        // fixed-size buffer of column indices), some of them on multi-bit inputs, 0-2 X beside
        // them (after seeded change V-C05-agent19-6)
        let n = 9 + r.below(34);
        let n_c = (9 + r.below(n - 8)).min(n);
        let mut sigs: Vec<Sig> = (0..n).map(|i| Sig { name: format!("K{i}"), bits: if r.chance(1, 5) { 2 + r.below(7) } else { 1 }, kind: SigKind::In(InVal::V((i % 2) as i64)) }).collect();
        sigs.insert(r.below(n), Sig { name: "Q".into(), bits: 8, kind: SigKind::Out });
        let header: Vec<String> = sigs.iter().map(|s| s.name.clone()).collect();
        let mut kinds: Vec<u8> = (0..n).map(|i| if i < n_c { 2 } else { 0 }).collect();
        for k in kinds.iter_mut().skip(n_c).take(r.below(3)) {
            *k = 1;
        }
        r.shuffle(&mut kinds);
        let mut ki = 0;
        let entries: Vec<Entry> = sigs
            .iter()
            .map(|s| {
                if s.is_input() {
                    let k = kinds[ki];
                    ki += 1;
                    match k {
                        1 if s.bits == 1 => Entry::X(false),
                        2 => Entry::C(r.chance(1, 4)),
                        _ => Entry::Lit(1, Radix::Dec),
                    }
                } else {
                    Entry::Lit(5, Radix::Dec)
                }
            })
            .collect();
        let plain: Vec<Entry> = entries.iter().map(|e| if matches!(e, Entry::X(_) | Entry::C(_)) { Entry::Lit(0, Radix::Dec) } else { e.clone() }).collect();
        let case = Case {
            program: Program { header, items: vec![Item::Row(1, entries.clone()), Item::Row(2, plain), Item::Row(3, entries)] },
            signals: sigs,
            script: Script { layout: vec![], values: ValueFn::Unique { salt: 1, narrow: true }, faults: vec![], override_write: r.chance(1, 2), rebuild_signals: false },
            layout_opts: crate::pp::Layout::plain(),
            rng_seed: 1,
        };
        acc.tag("row_with_9_to_40_clock_columns");
        c05_case_opts(&case, case_seed, "many-clocks", acc, None);
        return;
    }
    if r.chance(15, 1000) {
        // rows with 11-130 X entries: 2^k assignments cannot be run to the end, but the crate
        // expands lazily and the first rows are prescribed all the same (counts of X just past
        // 31 / 32 / 63 / 64 / 128, where a counter of assignments would overflow)
        let k = *r.pick(&[11usize, 12, 16, 31, 32, 33, 63, 64, 65, 100, 127, 128, 129, 130]);
        let extra_in = r.below(3);
        let mut sigs: Vec<Sig> = (0..k + extra_in).map(|i| Sig { name: format!("I{i}"), bits: 1, kind: SigKind::In(InVal::V(0)) }).collect();
        sigs.push(Sig { name: "O".into(), bits: 8, kind: SigKind::Out });
        r.shuffle(&mut sigs);
        let header: Vec<String> = sigs.iter().map(|s| s.name.clone()).collect();
        let mut xs_left = k;
        let with_c = r.chance(1, 3) && extra_in > 0;
        let mut c_used = false;
        let big: Vec<Entry> = sigs
            .iter()
            .map(|s| {
                if s.is_input() {
                    if xs_left > 0 {
                        xs_left -= 1;
                        Entry::X(r.chance(1, 5))
                    } else if with_c && !c_used {
                        c_used = true;
                        Entry::C(false)
                    } else {
                        Entry::Lit(r.range(0, 1), Radix::Dec)
                    }
                } else {
                    Entry::X(false)
                }
            })
            .collect();
        let plain: Vec<Entry> = sigs.iter().map(|s| if s.is_input() { Entry::Lit(r.range(0, 1), Radix::Dec) } else { Entry::Lit(r.range(0, 200), Radix::Dec) }).collect();
        let mut items = vec![];
        if r.chance(1, 2) {
            items.push(Item::Row(1, plain));
        }
        items.push(Item::Row(2, big));
        let o = sigs.iter().position(|s| s.is_output()).unwrap();
        let case = Case {
            program: Program { header, items },
            signals: sigs,
            script: Script { layout: vec![o], values: ValueFn::Small { salt: r.next_u64(), modulus: 200 }, faults: vec![], override_write: r.chance(1, 2), rebuild_signals: false },
            layout_opts: crate::pp::Layout::plain(),
            rng_seed: 1,
        };
        acc.tag("row_with_11_to_130_X_first_rows_only");
        c05_case_opts(&case, case_seed, "huge-x", acc, Some(crate::refint::RefOpts { max_rows: 40 + r.below(60), prefix_only: true, ..Default::default() }));
        return;
    }
    if r.chance(12, 1000) {
        // very wide headers (65-140 columns, inputs and outputs interleaved): column indices
        // beyond 64 / 128 - more than fits one machine word used as a bit set
        let n = 65 + r.below(76);
        let mut sigs: Vec<Sig> = vec![];
        for i in 0..n {
            if r.chance(1, 3) {
                sigs.push(Sig { name: format!("O{i}"), bits: 1 + r.below(8), kind: SigKind::Out });
            } else {
                sigs.push(Sig { name: format!("I{i}"), bits: 1 + r.below(4), kind: SigKind::In(InVal::V(0)) });
            }
        }
        let header: Vec<String> = sigs.iter().map(|s| s.name.clone()).collect();
        let mut items = vec![];
        for id in 1..=3usize {
            let mut nx = 0;
            let mut nc = 0;
            let es: Vec<Entry> = sigs
                .iter()
                .map(|s| {
                    if s.is_input() {
                        match r.below(40) {
                            0 if nx < 3 => {
                                nx += 1;
                                Entry::X(false)
                            }
                            1 if nc < 2 => {
                                nc += 1;
                                Entry::C(false)
                            }
                            2 => Entry::Z(false),
                            _ => Entry::Lit(r.range(0, 3), Radix::Dec),
                        }
                    } else {
                        match r.below(4) {
                            0 => Entry::X(false),
                            1 => Entry::Z(false),
                            _ => Entry::Lit(r.range(0, 9), Radix::Dec),
                        }
                    }
                })
                .collect();
            items.push(Item::Row(id, es));
        }
        let outs: Vec<usize> = (0..sigs.len()).filter(|&i| sigs[i].is_output()).collect();
        let case = Case {
            program: Program { header, items },
            signals: sigs,
            script: Script { layout: outs.into_iter().filter(|_| r.chance(1, 2)).collect(), values: ValueFn::Small { salt: 3, modulus: 4 }, faults: vec![], override_write: r.chance(1, 2), rebuild_signals: false },
            layout_opts: crate::pp::Layout::plain(),
            rng_seed: 1,
        };
        acc.tag("very_wide_header_65_to_140_columns");
        c05_case(&case, case_seed, "wide-header", acc);
        return;
    }
    let cfg = profile_expand();
    let mut case = gen::generate(&mut r, &cfg);
    if r.chance(40, 1000) && plant_twin_x_rows(&mut case, &mut r) {
        acc.tag("twin_rows_with_ge4_X_on_different_lines");
    } else if r.chance(20, 1000) {
        case = twin_x_case(&mut r);
        acc.tag("twin_rows_with_ge4_X_on_different_lines");
    }
    // an error item in the middle of an expansion (the driver refuses one of its writes) must
    // not disturb the rest of it
    maybe_fault(&mut case, &mut r, 200);
    c05_case(&case, case_seed, "gen", acc);
}

fn c05_case(case: &Case, case_seed: u64, variant: &str, acc: &mut Acc) {
    c05_case_opts(case, case_seed, variant, acc, None)
}

fn c05_case_opts(case: &Case, case_seed: u64, variant: &str, acc: &mut Acc, opts: Option<crate::refint::RefOpts>) {
    run_oracles_opts(
        case,
        case_seed,
        variant,
        acc,
        opts,
        &[o_accepted, o_rows, o_protocol],
        |_c, ran| {
            let s = &ran.rf.stats;
            s.multi_x > 0 || s.xc_expansions > 0 || s.expansions_in_loop > 0
        },
        |_c, ran, acc| {
            let s = &ran.rf.stats;
            acc.tag_n("x_only_source_rows", s.x_expansions as u64);
            acc.tag_n("c_only_source_rows", s.c_expansions as u64);
            acc.tag_n("x_and_c_source_rows", s.xc_expansions as u64);
            acc.tag_n("multi_x_or_multi_c", s.multi_x as u64);
            acc.tag_n("expansion_inside_loop", s.expansions_in_loop as u64);
        },
    );
}

pub fn c05_exhaustive(tier: &str, acc: &mut Acc) -> Value {
    // three configurations: all-input, input+output mix, bidirectional pair
    let confs: Vec<(Vec<Sig>, Vec<String>, Vec<usize>)> = vec![
        (
            vec![
                Sig { name: "A".into(), bits: 1, kind: SigKind::In(InVal::V(0)) },
                Sig { name: "B".into(), bits: 3, kind: SigKind::In(InVal::V(1)) },
                Sig { name: "CLK".into(), bits: 1, kind: SigKind::In(InVal::V(0)) },
                Sig { name: "Q".into(), bits: 4, kind: SigKind::Out },
            ],
            vec!["A".into(), "B".into(), "CLK".into(), "Q".into()],
            vec![3],
        ),
        (
            vec![
                Sig { name: "Q".into(), bits: 8, kind: SigKind::Out },
                Sig { name: "A".into(), bits: 1, kind: SigKind::In(InVal::Z) },
                Sig { name: "Y".into(), bits: 1, kind: SigKind::Out },
                Sig { name: "B".into(), bits: 2, kind: SigKind::In(InVal::V(0)) },
            ],
            vec!["Y".into(), "B".into(), "Q".into(), "A".into()],
            vec![2, 0],
        ),
        (
            vec![
                Sig { name: "D".into(), bits: 4, kind: SigKind::Bidir(InVal::Z) },
                Sig { name: "CLK".into(), bits: 1, kind: SigKind::In(InVal::V(0)) },
                Sig { name: "OE".into(), bits: 1, kind: SigKind::In(InVal::V(0)) },
            ],
            vec!["D".into(), "CLK".into(), "D_out".into(), "OE".into()],
            vec![0],
        ),
    ];
    let mut confs = confs;
    if tier == "thorough" {
        // a five-column configuration (3125 rows): bidirectional pair split around a clock
        confs.push((
            vec![
                Sig { name: "Q".into(), bits: 3, kind: SigKind::Out },
                Sig { name: "A".into(), bits: 1, kind: SigKind::In(InVal::V(1)) },
                Sig { name: "D".into(), bits: 2, kind: SigKind::Bidir(InVal::Z) },
                Sig { name: "CLK".into(), bits: 1, kind: SigKind::In(InVal::V(0)) },
            ],
            vec!["A".into(), "D_out".into(), "CLK".into(), "Q".into(), "D".into()],
            vec![2, 0],
        ));
    }
    let alphabet = [0u8, 1, 2, 3, 4]; // 0,1,X,C,Z
    let mut n = 0u64;
    for (ci, (sigs, header, layout)) in confs.iter().enumerate() {
        let w = header.len();
        let total = 5usize.pow(w as u32);
        for code in 0..total {
            let mut c = code;
            let mut es = vec![];
            let mut ok = true;
            for col in 0..w {
                let a = alphabet[c % 5];
                c /= 5;
                let is_in = sigs.iter().any(|s| s.name == header[col] && s.is_input());
                es.push(match a {
                    0 => Entry::Lit(0, Radix::Dec),
                    1 => Entry::Lit(1, Radix::Dec),
                    2 => Entry::X(false),
                    3 => {
                        if !is_in {
                            ok = false; // C in an expected column is a bind error (C11)
                        }
                        Entry::C(false)
                    }
                    _ => Entry::Z(false),
                });
            }
            if !ok {
                continue;
            }
            let depth_variants = if tier == "thorough" { 2 } else { 1 };
            for dv in 0..depth_variants {
                let row = Item::Row(1, es.clone());
                let items = if dv == 0 {
                    vec![row, Item::Row(2, es.clone())]
                } else {
                    vec![Item::Loop("i".into(), Expr::Num(2, Radix::Dec), vec![row])]
                };
                let case = Case {
                    program: Program { header: header.clone(), items },
                    signals: sigs.clone(),
                    script: Script {
                        layout: layout.clone(),
                        values: ValueFn::Unique { salt: 5, narrow: true },
                        faults: vec![],
                        override_write: code % 2 == 0, rebuild_signals: false,
                    },
                    layout_opts: crate::pp::Layout::plain(),
                    rng_seed: 1,
                };
                c05_case(&case, (ci * 100000 + code) as u64, "exhaustive", acc);
                n += 1;
            }
        }
    }
    json!({"exhaustive_rows_over_{0,1,X,C,Z}": n, "configurations": confs.len()})
}

// ----------------------------------------------------------------------------------- C06

pub const META_C06: Meta = Meta {
    id: "C06",
    level: "exploration",
    rule: "Cases from profile `binding`: signal lists of 2-11 signals in random order (inputs, outputs, bidirectionals interleaved, widths 1-62, defaults incl. Z), header = random subset in random order with bidirectional pairs split (D only / D_out only / both / separated), rows that repeat or change one column, X/C expansion and bits() spanning columns. Oracle: every row's inputs list is exactly the input-capable signals in TestCase.signals order (configured signals first, in the order given), values = column of that name else the default (reference); every checked row's outputs list is exactly the output-capable + virtual signals in order with expected = column `name` / `name_out` else X (reference); changed==false implies the value equals the one in the previous vector the driver received (constructor's default vector for the first row); header-omitted inputs are never flagged changed. Non-trivial = header order differs from signal order or header omits a signal, >= 2 inputs, >= 3 rows, and both a changed and an unchanged entry observed.",
    assumptions: &["reference interpreter for values; structure is decided from the model's header and signal list only"],
    quick_cases: 150000,
    thorough_cases: 2000000,
    floor: 8000,
};

pub fn profile_binding() -> GenCfg {
    let mut c = GenCfg::base();
    c.n_in = (1, 5);
    c.n_out = (1, 4);
    c.n_bidir = (0, 2);
    c.header_drop = 280;
    c.row_repeat = 450;
    c.z_defaults = 200;
    c.w_in = [60, 20, 6, 6, 8];
    c.one_bit_inputs = 300;
    c.bits_entries = 100;
    c.max_depth = 2;
    c.w_row = 60;
    c.n_declares = (0, 2);
    c.list_virtuals = 150;
    c
}

pub fn c06(case_seed: u64, acc: &mut Acc) {
    let mut r = Prng::new(case_seed);
    let mut cfg = profile_binding();
    if r.chance(150, 1000) {
        // rows whose entries read device outputs that are now and then Z / X: such a row is an
        // error item, and the rows after it must be bound to their columns as ever
        cfg.reads = 350;
        cfg.value_mode = 1;
        cfg.mixed_rates = (120, 120, 100);
    }
    let mut case = gen::generate(&mut r, &cfg);
    // (the first row after an error item: `changed` refers to the vector of the failed call)
    maybe_fault(&mut case, &mut r, 150);
    run_oracles(
        &case,
        case_seed,
        "gen",
        acc,
        &[o_accepted, o_binding, o_inputs_expected, o_attribution],
        |c, ran| {
            let n_in = c.signals.iter().filter(|s| s.is_input()).count();
            let names: Vec<&str> = c.signals.iter().map(|s| s.name.as_str()).collect();
            let hdr_sigs: Vec<&str> = c.program.header.iter().map(|h| h.as_str()).filter(|h| names.contains(h)).collect();
            let in_order: Vec<&str> = names.iter().copied().filter(|n| hdr_sigs.contains(n)).collect();
            let reordered = hdr_sigs != in_order || hdr_sigs.len() < names.len();
            let mut ch = false;
            let mut un = false;
            for st in &ran.real.steps {
                if let RealItem::Row(row) = &st.item {
                    for i in &row.inputs {
                        if i.2 {
                            ch = true
                        } else {
                            un = true
                        }
                    }
                }
            }
            n_in >= 2 && ran.rf.stats.rows >= 3 && reordered && ch && un
        },
        |c, ran, acc| {
            acc.tag_n("bidirectional_present", c.signals.iter().any(|s| matches!(s.kind, SigKind::Bidir(_))) as u64);
            acc.tag_n("bidir_out_column_only", c.signals.iter().any(|s| matches!(s.kind, SigKind::Bidir(_)) && !c.program.header.contains(&s.name) && c.program.header.contains(&format!("{}_out", s.name))) as u64);
            acc.tag_n("header_omits_input", c.signals.iter().any(|s| s.is_input() && !c.program.header.contains(&s.name)) as u64);
            acc.tag_n("z_default", c.signals.iter().any(|s| s.default() == Some(InVal::Z)) as u64);
            let mut ch = 0;
            let mut un = 0;
            for st in &ran.real.steps {
                if let RealItem::Row(row) = &st.item {
                    for i in &row.inputs {
                        if i.2 {
                            ch += 1
                        } else {
                            un += 1
                        }
                    }
                }
            }
            acc.event("input_entries_changed", ch);
            acc.event("input_entries_unchanged", un);
        },
    );
}

// ----------------------------------------------------------------------------------- C14

pub const META_C14: Meta = Meta {
    id: "C14",
    level: "exploration",
    rule: "Cases from profile `virtual`: 1-4 `declare` statements placed before, between, after rows and inside loop/while bodies, expressions over 1-3 device outputs (incl. bidirectional), program variables and loop counters deliberately named like the outputs the declarations read, C rows before checked rows, Z/X answers at ~5% of (call,signal) pairs, header with or without the virtual columns. Oracle: in every checked row the entry of each virtual signal (located by name) carries the declared expression evaluated by the reference over the answers of that very call with no variable visible, expected = column of that name else X; a Z/X operand makes exactly that item a runtime error (not a panic, not a value); vars() after every row still equals the program's variables. 15% of the cases have no declaration of their own, only virtual signals that came with the signal list (at any position in it, also before device outputs); the forced shadowing variable is named after an operand of either kind; 2% put the declarations behind 62-129 outputs (positions 63, 64, 65, 128 ... of the output vector) with a let and a loop counter shadowing their operands. Every virtual signal listed in TestCase.signals must be 64 bits wide. Declaration expressions contain ite(c,a,b) and unary operators as well as binary operators, names and literals. Non-trivial = >= 1 virtual signal evaluated on >= 2 checked rows with differing operands and >= 1 variable in scope with the name of an operand.",
    assumptions: &["reference interpreter; unique answers distinguish this row's outputs from the previous row's"],
    quick_cases: 150000,
    thorough_cases: 2000000,
    floor: 6000,
};

pub fn profile_virtual(r: &mut Prng) -> GenCfg {
    let mut c = GenCfg::base();
    c.n_declares = (1, 4);
    c.n_out = (1, 4);
    c.widths = 3;
    c.clash_names = true;
    c.value_mode = *r.pick(&[0, 1, 1, 2]);
    c.mixed_rates = (25, 25, 150);
    c.layout_mode = 1;
    c.w_in = [45, 35, 3, 3, 14];
    c.one_bit_inputs = 300;
    c.header_drop = 120;
    c.list_virtuals = 200;
    c
}

pub fn c14(case_seed: u64, acc: &mut Acc) {
    let mut r = Prng::new(case_seed);
    let mut cfg = profile_virtual(&mut r);
    if r.chance(150, 1000) {
        // no declaration in the program itself: the only virtual signals are those that came
        // with the signal list, anywhere in it (also before device outputs)
        cfg.n_declares = (0, 0);
        cfg.list_virtuals = 1000;
    }
    let mut case = gen::generate(&mut r, &cfg);
    if r.chance(20, 1000) {
        // many outputs (just below / beyond 64 and 128) in front of the declared signals, which
        // therefore sit at positions 63, 64, 65, 128 ... of the row's output vector
        let n = *r.pick(&[62usize, 63, 64, 65, 70, 127, 128, 129]);
        let mut sigs = vec![Sig { name: "A".into(), bits: 8, kind: SigKind::In(InVal::V(0)) }];
        for i in 0..n {
            sigs.push(Sig { name: format!("O{i}"), bits: 8, kind: SigKind::Out });
        }
        let a = r.below(n);
        let b = r.below(n);
        let mut header = vec!["A".to_string(), format!("O{a}"), "V".to_string()];
        let two = r.chance(1, 2);
        if two {
            header.push("W".into());
        }
        let row = |r: &mut Prng, two: bool| {
            let mut es = vec![Entry::Lit(r.range(0, 200), Radix::Dec), Entry::X(false), Entry::Lit(r.range(0, 300), Radix::Dec)];
            if two {
                es.push(Entry::X(false));
            }
            es
        };
        let mut items = vec![Item::Declare("V".into(), Expr::Bin(BinOp::Add, Box::new(Expr::Ident(format!("O{a}"))), Box::new(Expr::Num(1, Radix::Dec))))];
        if two {
            items.push(Item::Declare("W".into(), Expr::Bin(BinOp::Xor, Box::new(Expr::Ident(format!("O{b}"))), Box::new(Expr::Ident(format!("O{a}"))))));
        }
        items.push(Item::Row(0, row(&mut r, two)));
        items.push(Item::Let(format!("O{a}"), Expr::Num(1000 + r.range(0, 9), Radix::Dec)));
        items.push(Item::Row(0, row(&mut r, two)));
        items.push(Item::Loop(format!("O{b}"), Expr::Num(2, Radix::Dec), vec![Item::Row(0, row(&mut r, two))]));
        let mut next = 0;
        renumber(&mut items, &mut next);
        case = Case {
            program: Program { header, items },
            signals: sigs,
            script: Script { layout: (1..=n).collect(), values: ValueFn::Unique { salt: r.next_u64(), narrow: true }, faults: vec![], override_write: false, rebuild_signals: false },
            layout_opts: crate::pp::Layout::plain(),
            rng_seed: 1,
        };
        acc.tag("declared_signals_behind_62_to_129_outputs");
    }
    // force variables named like the operands of the declarations (the program's own and those
    // of virtual signals in the signal list)
    if r.chance(600, 1000) {
        let mut ops: Vec<String> = case
            .program
            .declares()
            .iter()
            .flat_map(|(_, e)| e.idents().into_iter().map(|s| s.to_string()).collect::<Vec<_>>())
            .collect();
        for sg in &case.signals {
            if let SigKind::Virtual(e) = &sg.kind {
                ops.extend(e.idents().into_iter().map(|s| s.to_string()));
            }
        }
        if !ops.is_empty() {
            let n = r.pick(&ops).clone();
            let v = r.range(0, 1000);
            case.program.items.insert(0, Item::Let(n, Expr::Num(v, Radix::Dec)));
        }
    }
    maybe_fault(&mut case, &mut r, 150);
    maybe_reorder(&mut case, &mut r, 60);
    maybe_superset(&mut case, &mut r, 60);
    run_oracles(
        &case,
        case_seed,
        "gen",
        acc,
        &[o_accepted, o_virtual, o_vars],
        |_c, ran| ran.rf.stats.virtual_evals >= 2 && ran.rf.stats.virtual_var_clash > 0 && ran.rf.stats.checked_rows >= 2,
        |c, ran, acc| {
            acc.tag_n("declarations", c.program.declares().len() as u64);
            acc.tag_n("only_virtual_signals_from_the_signal_list", (c.program.declares().is_empty() && c.signals.iter().any(|s| matches!(s.kind, SigKind::Virtual(_)))) as u64);
            acc.tag_n("virtual_evaluations", ran.rf.stats.virtual_evals as u64);
            acc.tag_n("evaluations_with_same_named_variable_in_scope", ran.rf.stats.virtual_var_clash as u64);
            acc.tag_n("virtual_zx_error_prescribed", ran.rf.items.iter().any(|i| matches!(i, RefItem::Err(crate::refint::RefErr::VirtualZX(_)))) as u64);
            let mut nested = false;
            walk_items(&c.program.items, 0, &mut |it, d| {
                if matches!(it, Item::Declare(..)) && d > 0 {
                    nested = true
                }
            });
            acc.tag_n("declare_inside_block", nested as u64);
        },
    );
}

// ----------------------------------------------------------------------------------- C18

pub const META_C18: Meta = Meta {
    id: "C18",
    level: "exploration",
    rule: "Cases from profile `flow` with deliberately overlapping name pools (n, i, output names, virtual-signal names), shadow depth up to 5, plus the `virtual` profile (the variable swap around virtual-signal evaluation must be undone). After every yielded row vars() is sampled and must equal the flattening (innermost binding wins) of the reference interpreter's frame stack at the moment the row's source statement was evaluated - so loop variables of ended loops are absent, shadowed outer values are back, and no output / virtual signal name appears unless a variable of that name is in scope. A second, text-only oracle runs on every case: the keys of vars() at a row are a subset of the names that can be in scope at that place of the text, and at rows outside every loop/while the constant top-level bindings are back with their own value; it also covers the 4% of cases in which a loop body rebinds the loop's own counter (to MAX, MAX-1 or 2^40), where the reference abstains. 0.08% of the cases are two rows with a row-less loop of about 2^16 / 2^17 iterations between them (+-3 binding changes around the multiple of 65536), vars() asked at both, decided from the text alone. Non-trivial = a row yielded at frame depth >= 2 while some name is bound in two frames, or the first row after a loop has ended.",
    assumptions: &["reference interpreter's frame stack"],
    quick_cases: 150000,
    thorough_cases: 3000000,
    floor: 5000,
};

/// Two vars() calls with about 2^16 (2^17) binding changes between them: a row-less loop between
/// two rows. A change counter or generation stamp kept in 16 bits comes round to where it was
/// (after seeded change V-C18-agent19-8). The oracle needs no reference: the text says what is
/// in scope at both rows.
fn c18_many_changes(case_seed: u64, r: &mut Prng, acc: &mut Acc) {
    let mult = 1 + r.below(2);
    let with_let_body = r.chance(1, 2);
    let d = r.below(7) as i64 - 3;
    // binding changes between the two vars() calls: [let a = 2] + n counter values + n body lets + the frame popped
    let rebind_a = r.chance(3, 4);
    let total = (mult as i64) * 65536 + d;
    let fixed = 1 + rebind_a as i64;
    let n = ((total - fixed) / if with_let_body { 2 } else { 1 }).max(1) as usize;
    let body = if with_let_body { "let t = i;\n" } else { "" };
    let a_before = rebind_a && r.chance(1, 2);
    // one time in three the changes come from a while that counts in a top-level variable
    // (no frame pushed or popped: the bindings are rebound in place)
    let as_while = r.chance(1, 3);
    let text = if as_while {
        let m = (total - fixed - 1).max(1);
        format!(
            "A\nlet a = 1;\n(a)\n{}let k = 0;\nwhile(k < {m})\nlet k = k + 1;\nend while\n{}(a + k - k)\n",
            if a_before { "let a = 2;\n" } else { "" },
            if rebind_a && !a_before { "let a = 2;\n" } else { "" }
        )
    } else {
        format!(
            "A\nlet a = 1;\n(a)\n{}loop(i,{n})\n{body}end loop\n{}(a)\n",
            if a_before { "let a = 2;\n" } else { "" },
            if rebind_a && !a_before { "let a = 2;\n" } else { "" }
        )
    };
    let sigs = vec![Sig { name: "A".into(), bits: 8, kind: SigKind::In(InVal::V(0)) }];
    let script = Script { layout: vec![], values: ValueFn::Small { salt: 1, modulus: 200 }, faults: vec![], override_write: false, rebuild_signals: false };
    let real = run_text(&text, &sigs, &script, &RunOpts { max_steps: 10, probe_after_end: 1, stop_at_error: true, seed: Some(1), continue_on: None });
    acc.evaluations += 1;
    acc.event("binding_changes_between_two_vars_calls", (n * if with_let_body { 2 } else { 1 }) as u64 + fixed as u64);
    let a2 = if rebind_a { 2 } else { 1 };
    let k_end = (total - fixed - 1).max(1);
    let want: Vec<(i64, Vec<(&str, i64)>)> = vec![(1, vec![("a", 1)]), (a2, if as_while { vec![("a", a2), ("k", k_end)] } else { vec![("a", a2)] })];
    let mut f = first_some(vec![no_panic(&real), accepted(&real)]);
    if f.is_none() {
        let rows: Vec<(Option<i64>, Option<BTreeMap<String, i64>>)> = real
            .steps
            .iter()
            .filter_map(|st| if let RealItem::Row(row) = &st.item { Some((row.inputs.first().and_then(|i| if let InVal::V(v) = i.1 { Some(v) } else { None }), st.vars.clone())) } else { None })
            .collect();
        if rows.len() != 2 {
            f = Some(Finding::new("vars-long-run-rows", format!("{} rows instead of 2", rows.len())));
        } else {
            for (k, (w, got)) in want.iter().zip(&rows).enumerate() {
                let wv: BTreeMap<String, i64> = w.1.iter().map(|(n, v)| (n.to_string(), *v)).collect();
                if got.0 != Some(w.0) || got.1.as_ref() != Some(&wv) {
                    f = Some(Finding::new("vars-stale-after-many-changes", format!("row {k}: A = {:?}, vars() = {:?}; in scope there: {wv:?}", got.0, got.1)));
                    break;
                }
            }
        }
    }
    match f {
        Some(f) => acc.violation(case_seed, "many-changes", f, json!({"text": text})),
        None => {
            acc.held += 1;
            acc.tag("two_vars_calls_2^16_binding_changes_apart");
        }
    }
}

pub fn c18(case_seed: u64, acc: &mut Acc) {
    let mut r = Prng::new(case_seed);
    if !cfg!(miri) && r.chance(8, 10000) {
        acc.cases += 1;
        return c18_many_changes(case_seed, &mut r, acc);
    }
    let cfg = if r.chance(300, 1000) {
        profile_virtual(&mut r)
    } else {
        let mut c = super::c01::profile();
        c.max_depth = 5;
        c.w_loop = 22;
        c.w_let = 35;
        c.clash_names = true;
        c.block_items = (1, 4);
        c
    };
    let mut case = gen::generate(&mut r, &cfg);
    if r.chance(40, 1000) && !case.program.uses_random() {
        // a loop whose body rebinds the loop's own counter (to i64::MAX, MAX-1, beyond or below
        // the bound): how often it runs is not C01's business and the reference abstains, but
        // what vars() may hold at each row follows from the text alone
        let mut probe = case.clone();
        if super::hazard::counter_rebind_variant(&mut probe, &mut r) {
            // make sure something is yielded after the loop, at top level
            if let Some(Item::Row(_, es)) = probe.program.items.iter().rev().find(|i| matches!(i, Item::Row(..))).cloned() {
                probe.program.items.push(Item::Row(0, es));
            }
            let mut next = 0;
            renumber(&mut probe.program.items, &mut next);
            acc.cases += 1;
            if !super::preflight_ok(&probe, acc) {
                return;
            }
            let pr = pp::print(&probe.program, &probe.layout_opts);
            let real = run_text(&pr.text, &probe.signals, &probe.script, &RunOpts { max_steps: REAL_STEP_CAP, probe_after_end: 0, stop_at_error: true, seed: Some(probe.rng_seed), continue_on: None });
            acc.evaluations += 1;
            acc.tag("loop_counter_rebound_by_its_own_body");
            if let Some(f) = first_some(vec![no_panic(&real), accepted(&real), super::vars_within_textual_scope(&probe.program, &pr, &real, acc)]) {
                acc.violation(case_seed, "counter-rebind", f, case_json(&probe, &pr));
                return;
            }
            acc.held += 1;
            let h = case_hash(&probe, &pr);
            acc.distinct.insert(h);
            return;
        }
    }
    if r.chance(25, 1000) && !case.program.uses_random() {
        // many variables (just beyond 64 / 128 / 256) and a deep nest of short loops, each
        // shadowing one of them: sizes at which a small-map or bit-set shortcut would change
        let template = case.program.items.iter().find_map(|i| if let Item::Row(_, es) = i { Some(es.clone()) } else { None });
        if let Some(es) = template {
            let n = *r.pick(&[65usize, 66, 129, 130, 257]);
            let mut pre: Vec<Item> = (0..n).map(|k| Item::Let(format!("w_{k}"), Expr::Num(k as i64, Radix::Dec))).collect();
            let depth = 2 + r.below(11);
            let mut inner: Vec<Item> = vec![Item::Row(0, es.clone())];
            for d in (0..depth).rev() {
                let shadow = format!("w_{}", r.below(n));
                let mut body = vec![Item::Let(shadow, Expr::Num(1000 + d as i64, Radix::Dec))];
                if r.chance(1, 3) {
                    body.push(Item::Row(0, es.clone()));
                }
                body.extend(inner);
                inner = vec![Item::Loop(format!("c{d}"), Expr::Num(1 + (d % 2) as i64, Radix::Dec), body)];
            }
            pre.append(&mut case.program.items);
            pre.extend(inner);
            pre.push(Item::Row(0, es));
            case.program.items = pre;
            let mut next = 0;
            renumber(&mut case.program.items, &mut next);
            acc.tag("many_variables_65_to_257_and_loop_nest_2_to_12_deep");
        }
    }
    maybe_fault(&mut case, &mut r, 150);
    maybe_reorder(&mut case, &mut r, 60);
    maybe_superset(&mut case, &mut r, 60);
    let held_before = acc.held;
    let ran = run_oracles(
        &case,
        case_seed,
        "gen",
        acc,
        &[o_accepted, o_vars],
        |_c, ran| ran.rf.stats.rows_at_depth2_shadowed > 0 || ran.rf.stats.rows_after_loop_end > 0,
        |_c, ran, acc| {
            acc.tag_n("rows_at_depth_ge2_with_shadowed_name", ran.rf.stats.rows_at_depth2_shadowed as u64);
            acc.tag_n("first_row_after_loop_end", ran.rf.stats.rows_after_loop_end as u64);
            acc.tag_n("max_frame_depth_ge3", (ran.rf.stats.max_depth >= 3) as u64);
            acc.event("vars_snapshots_compared", ran.rf.stats.rows as u64);
        },
    );
    // the text-only reading of C18 holds for every run, whatever the device answered
    if let Some(ran) = ran {
        if acc.held > held_before {
            if let Some(f) = super::vars_within_textual_scope(&case.program, &ran.pr, &ran.real, acc) {
                acc.violation(case_seed, "gen", f, case_json(&case, &ran.pr));
            }
        }
    }
}

// ----------------------------------------------------------------------------------- C19

pub const META_C19: Meta = Meta {
    id: "C19",
    level: "exploration",
    rule: "Cases from profile `layout-lines`: 0-5 blank lines before the header; after it any mix of blank lines, comment-only lines, trailing comments and ragged indentation; LF, CRLF and mixed endings, stray CRs (not part of a CRLF pair) in the blank run before a line terminator; rows at depth 0-4, repeat rows, rows right after `end loop`, last line with and without newline. 3% of the cases are small programs built around twin rows: rows on different lines with identical literal entries and 4-5 X on input columns, separated by other statements, blank lines, comments or a loop. The printer records the 1-based line on which it prints each row item; the reference says which row item produces the k-th yielded row; every DataRow.line must equal that recorded line (the same for all X/C expansions and loop iterations). 40% of the cases are additionally embedded as a Testcase in a generated .dig document (entities / CDATA, indentation varied) and loaded through dig::File::parse(..).load_test(0), and 30% of the static ones are iterated through try_iter_static: lines must be the same, relative to the test's own source; a third of those documents get a second form with TWO tests of the same label whose sources differ only by 1-4 blank lines before the header (both padded beyond 1 KiB), loaded in either order - each must report lines relative to its own source. Non-trivial = >= 1 blank or comment line above a row and (a row at depth >= 1 or a repeat row); distinct by source text.",
    assumptions: &["reference interpreter decides which source row each yielded row comes from"],
    quick_cases: 120000,
    thorough_cases: 2000000,
    floor: 3500,
};

pub fn profile_lines() -> GenCfg {
    let mut c = super::c01::profile();
    c.w_blank = 14;
    c.w_comment = 12;
    c.w_repeat = 12;
    c.w_in = [45, 30, 8, 3, 8];
    c.one_bit_inputs = 400;
    c
}

pub fn c19(case_seed: u64, acc: &mut Acc) {
    use crate::xmlgen::*;
    let mut r = Prng::new(case_seed);
    let cfg = profile_lines();
    let mut case = gen::generate(&mut r, &cfg);
    if r.chance(30, 1000) {
        // rows that are equal in everything but the line they stand on
        case = twin_x_case(&mut r);
        case.layout_opts.salt = r.next_u64();
        acc.tag("twin_rows_with_ge4_X_on_different_lines");
    }
    // layout stress
    case.layout_opts.leading_blank = if r.chance(30, 1000) {
        // line numbers just past 2^8 and 2^16
        acc.tag("row_lines_beyond_2^8_or_2^16");
        if r.chance(1, 8) { 65_530 + r.below(12) } else { 250 + r.below(12) }
    } else {
        r.below(6)
    };
    case.layout_opts.eol = r.below(3) as u8;
    case.layout_opts.trailing_comments = *r.pick(&[0, 200, 500]);
    case.layout_opts.indent = r.below(4) as u8;
    case.layout_opts.trailing_newline = r.chance(1, 2);
    case.layout_opts.stray_cr = *r.pick(&[0, 0, 150, 400]);
    if r.chance(60, 1000) && plant_twin_x_rows(&mut case, &mut r) {
        acc.tag("twin_rows_with_ge4_X_on_different_lines");
    }
    let ran = run_oracles(
        &case,
        case_seed,
        "gen",
        acc,
        &[o_accepted, |_c, r| diff_items(&r.pr, &r.rf, &r.real, Aspects { lines: true, kinds: true, ..Default::default() })],
        |c, ran| {
            let first_row_line = ran.pr.row_lines.values().min().copied().unwrap_or(0);
            let hdr_line = c.layout_opts.leading_blank + 1;
            let mut nested_or_repeat = false;
            walk_items(&c.program.items, 0, &mut |it, d| {
                if matches!(it, Item::Repeat(..)) || (matches!(it, Item::Row(..)) && d >= 1) {
                    nested_or_repeat = true
                }
            });
            let blank_or_comment_above = {
                let lines: Vec<&str> = ran.pr.text.lines().collect();
                let last_row = ran.pr.row_lines.values().max().copied().unwrap_or(0);
                lines.iter().enumerate().any(|(i, l)| i + 1 > hdr_line && i + 1 < last_row && (l.trim().is_empty() || l.trim_start().starts_with('#')))
            };
            let _ = first_row_line;
            nested_or_repeat && blank_or_comment_above && ran.rf.stats.rows >= 1
        },
        |c, ran, acc| {
            acc.tag_n("crlf_or_mixed_line_endings", (c.layout_opts.eol > 0) as u64);
            acc.tag_n("stray_CR_before_line_terminators", (c.layout_opts.stray_cr > 0) as u64);
            acc.tag_n("blank_lines_before_header", (c.layout_opts.leading_blank > 0) as u64);
            acc.tag_n("no_trailing_newline", !c.layout_opts.trailing_newline as u64);
            acc.event("row_lines_compared", ran.rf.stats.rows as u64);
        },
    );
    let Some(ran) = ran else { return };
    if ran.rf.construct_err.is_some() || !ran.real.bind.is_ok() {
        return;
    }
    // the same test loaded from a .dig document: lines relative to the test's own source.
    // (XML parsers normalise a literal CR LF to LF, so CRs are written as &#13;.)
    // Bidirectional signals cannot be written as pins (the loader infers them), and a declared
    // virtual signal used as a header column is refused by the loader ("not found in circuit" -
    // recorded in DESIGN.md as an observation outside the given properties): skip those.
    let embeddable = !case.signals.iter().any(|s| matches!(s.kind, SigKind::Bidir(_)) || s.name.ends_with("_out"))
        && !case.program.declares().iter().any(|d| case.program.header.iter().any(|h| h == d.0));
    if r.chance(500, 1000) && embeddable {
        let pins: Vec<Pin> = case
            .signals
            .iter()
            .map(|s| Pin {
                kind: if s.is_input() { PinKind::In } else { PinKind::Out },
                label: Some(s.name.clone()),
                bits: BitsSpec::N(s.bits),
                default: match s.default() {
                    Some(InVal::V(v)) => DefSpec::Val(Some(v.to_string()), Some("false".into())),
                    Some(InVal::Z) => DefSpec::Val(Some("0".into()), Some("true".into())),
                    None => DefSpec::Absent,
                },
            })
            .collect();
        let circ = Circuit { pins, tests: vec![TestDesc { label: Some("t".into()), source: ran.pr.text.clone() }] };
        let st = XmlStyle::random(&mut r);
        let doc = render(&circ, &st, &mut r);
        acc.evaluations += 1;
        let loaded = guarded(|| digital_test_runner::dig::File::parse(&doc).map_err(|e| err_chain(&e)).and_then(|f| f.load_test(0).map_err(|e| err_chain(&e))));
        match loaded {
            Ok(Ok(tc)) => {
                let run = run_bound(&tc, &case.signals, &case.script, &RunOpts { max_steps: ran.rf.items.len() + 4, probe_after_end: 0, stop_at_error: true, seed: Some(case.rng_seed), continue_on: None });
                let got: Vec<usize> = run.3.iter().filter_map(|s| if let RealItem::Row(r) = &s.item { Some(r.line) } else { None }).collect();
                let want: Vec<usize> = ran.real.steps.iter().filter_map(|s| if let RealItem::Row(r) = &s.item { Some(r.line) } else { None }).collect();
                if got != want {
                    acc.violation(case_seed, "dig", Finding::new("line-via-dig", format!("lines via .dig {:?}, direct {:?}; ctor {:?} first {:?}", got, want, run.0, run.3.first().map(|s| &s.item))), json!({"document": doc}));
                    return;
                }
                acc.tag("lines_compared_through_dig_document");
                // two tests of ONE document (same label) whose sources differ only in the number
                // of blank lines before the header, both padded beyond 1 KiB with comment lines:
                // each reports lines relative to its own source, in whichever order they are loaded
                if r.chance(300, 1000) {
                    let d = 1 + r.below(4);
                    let mut body = ran.pr.text.clone();
                    if !body.ends_with('\n') {
                        body.push('\n');
                    }
                    while body.len() < 1100 {
                        body.push_str("# padding padding padding padding padding padding\n");
                    }
                    let shifted = format!("{}{}", "\n".repeat(d), body);
                    let circ2 = Circuit {
                        pins: circ.pins.clone(),
                        tests: vec![TestDesc { label: Some("t".into()), source: body }, TestDesc { label: Some("t".into()), source: shifted }],
                    };
                    let doc2 = render(&circ2, &st, &mut r);
                    let order: [usize; 2] = if r.chance(1, 2) { [0, 1] } else { [1, 0] };
                    let lines_of = |tc: &digital_test_runner::TestCase| -> Vec<usize> {
                        let run = run_bound(tc, &case.signals, &case.script, &RunOpts { max_steps: ran.rf.items.len() + 4, probe_after_end: 0, stop_at_error: true, seed: Some(case.rng_seed), continue_on: None });
                        run.3.iter().filter_map(|s| if let RealItem::Row(r) = &s.item { Some(r.line) } else { None }).collect()
                    };
                    let loaded2 = guarded(|| {
                        let f = digital_test_runner::dig::File::parse(&doc2).map_err(|e| err_chain(&e))?;
                        let first = f.load_test(order[0]).map_err(|e| err_chain(&e))?;
                        let second = f.load_test(order[1]).map_err(|e| err_chain(&e))?;
                        Ok::<_, String>((first, second))
                    });
                    acc.evaluations += 2;
                    match loaded2 {
                        Ok(Ok((first, second))) => {
                            let (l_first, l_second) = (lines_of(&first), lines_of(&second));
                            let (l0, l1) = if order[0] == 0 { (l_first, l_second) } else { (l_second, l_first) };
                            let want1: Vec<usize> = want.iter().map(|l| l + d).collect();
                            if l0 != want || l1 != want1 {
                                acc.violation(
                                    case_seed,
                                    "dig-twin",
                                    Finding::new("line-via-dig", format!("two tests whose sources differ by {d} leading blank lines, loaded in the order {order:?}: lines {l0:?} and {l1:?}, wanted {want:?} and {want1:?}")),
                                    json!({"document": doc2}),
                                );
                                return;
                            }
                            acc.tag("twin_sources_in_one_document_compared");
                        }
                        Ok(Err(e)) => {
                            acc.violation(case_seed, "dig-twin", Finding::new("dig-embedding-refused", e), json!({"document": doc2}));
                            return;
                        }
                        Err(p) => {
                            acc.violation(case_seed, "dig-twin", Finding::new(p.signature(), format!("{p:?}")), json!({"document": doc2}));
                            return;
                        }
                    }
                }
            }
            Ok(Err(e)) => {
                acc.violation(case_seed, "dig", Finding::new("dig-embedding-refused", e), json!({"document": doc}));
                return;
            }
            Err(p) => {
                acc.violation(case_seed, "dig", Finding::new(p.signature(), format!("{p:?}")), json!({"document": doc}));
                return;
            }
        }
    }
    // static iteration reports the same lines
    if crate::scope::test_output_reads(&case.program, &case.signals).is_empty() && r.chance(300, 1000) {
        let (_, parsed) = parse(&ran.pr.text);
        if let Some(p) = parsed {
            if let (_, Some(tc)) = bind(p, &case.signals) {
                let lines = guarded(|| tc.try_iter_static().map(|it| it.take(500).filter_map(|x| x.ok()).map(|x| x.line).collect::<Vec<_>>()));
                acc.evaluations += 1;
                let want: Vec<usize> = ran.real.steps.iter().filter_map(|s| if let RealItem::Row(r) = &s.item { Some(r.line) } else { None }).collect();
                if let Ok(Ok(got)) = lines {
                    if got != want {
                        acc.violation(case_seed, "static", Finding::new("line-via-static", format!("static lines {:?}, dynamic {:?}", got, want)), case_json(&case, &ran.pr));
                        return;
                    }
                    acc.tag("lines_compared_through_static_iterator");
                }
            }
        }
    }
}


// ----------------------------------------------------------------------------------- fixture anchor

/// Anchors the semantics of C / while / repeat / output reads to a physical meaning: the repo's
/// own Counter.dig tests are run against a 10-line behavioural model of tests/data/Counter.v.
/// Every checked entry of `Static` and `Dynamic` must pass in the crate's run, the hand-built
/// models of the two programs must give the same histories in the reference interpreter, and
/// `Failing` must fail.
pub fn fixture_counter(acc: &mut Acc) -> Value {
    use digital_test_runner::dig;
    let Ok(text) = std::fs::read_to_string("/repo/tests/data/Counter.dig") else {
        acc.tag("fixture_Counter.dig_not_readable");
        return json!({"fixture": "not readable"});
    };
    let file = match guarded(|| dig::File::parse(&text)) {
        Ok(Ok(f)) => f,
        other => {
            acc.violation(0, "fixture", Finding::new("fixture-does-not-load", format!("{:?}", other.map(|r| r.map(|_| ()).map_err(|e| e.to_string())))), json!(null));
            return json!(null);
        }
    };
    let sigs: Vec<Sig> = file
        .signals
        .iter()
        .map(|s| Sig {
            name: s.name.clone(),
            bits: s.bits,
            kind: match &s.typ {
                digital_test_runner::SignalType::Input { default } => SigKind::In(from_in(*default)),
                digital_test_runner::SignalType::Bidirectional { default } => SigKind::Bidir(from_in(*default)),
                _ => SigKind::Out,
            },
        })
        .collect();
    let idx = |n: &str| sigs.iter().position(|s| s.name == n);
    let (Some(clk), Some(rst), Some(out), Some(tc)) = (idx("CLK"), idx("RESET"), idx("OUT"), idx("TC")) else {
        acc.violation(0, "fixture", Finding::new("fixture-signals", format!("{:?}", sigs)), json!(null));
        return json!(null);
    };
    let mut checked = 0u64;
    let mut report = vec![];
    for over in [false, true] {
        let script = Script {
            layout: vec![out, tc],
            values: ValueFn::Counter { clk, rst: Some(rst), out, tc: Some(tc), modulus: 10, init: 11, mask: 15 },
            faults: vec![],
            override_write: over, rebuild_signals: false,
        };
        let num = |v: i64| Expr::Num(v, Radix::Dec);
        let id = |n: &str| Expr::Ident(n.to_string());
        let bin = |o: BinOp, a: Expr, b: Expr| Expr::Bin(o, Box::new(a), Box::new(b));
        let header: Vec<String> = ["CLK", "RESET", "OUT", "TC"].iter().map(|s| s.to_string()).collect();
        let models: Vec<(&str, Vec<Item>, bool)> = vec![
            (
                "Static",
                vec![
                    Item::Blank,
                    Item::Row(1, vec![Entry::C(false), Entry::Lit(1, Radix::Dec), Entry::Lit(0, Radix::Dec), Entry::Lit(0, Radix::Dec)]),
                    Item::Loop(
                        "n".into(),
                        num(20),
                        vec![
                            Item::Let("out".into(), bin(BinOp::Rem, Expr::Group(Box::new(bin(BinOp::Add, id("n"), num(1)))), num(10))),
                            Item::Row(2, vec![Entry::C(false), Entry::Lit(0, Radix::Dec), Entry::Paren(id("out")), Entry::Paren(bin(BinOp::Eq, id("out"), num(9)))]),
                        ],
                    ),
                ],
                true,
            ),
            (
                "Dynamic",
                vec![
                    Item::Blank,
                    Item::Row(1, vec![Entry::Lit(0, Radix::Dec), Entry::Lit(0, Radix::Dec), Entry::X(false), Entry::X(false)]),
                    Item::While(bin(BinOp::Ne, id("OUT"), num(0)), vec![Item::Row(2, vec![Entry::C(false), Entry::Lit(0, Radix::Dec), Entry::X(false), Entry::X(false)])]),
                    Item::Blank,
                    Item::Row(3, vec![Entry::Lit(0, Radix::Dec), Entry::Lit(0, Radix::Dec), Entry::Lit(0, Radix::Dec), Entry::Lit(0, Radix::Dec)]),
                    Item::Repeat(
                        4,
                        num(20),
                        vec![
                            Entry::C(false),
                            Entry::Lit(0, Radix::Dec),
                            Entry::Paren(bin(BinOp::Rem, Expr::Group(Box::new(bin(BinOp::Add, id("OUT"), num(1)))), num(10))),
                            Entry::Paren(bin(BinOp::Eq, id("OUT"), num(8))),
                        ],
                    ),
                ],
                true,
            ),
        ];
        for (name, items, must_pass) in models {
            // the crate on the fixture's own source
            let tc_ = match guarded(|| file.load_test_by_name(name)) {
                Ok(Ok(t)) => t,
                other => {
                    acc.violation(0, "fixture", Finding::new("fixture-test-does-not-load", format!("{name}: {:?}", other.map(|r| r.map(|_| ()).map_err(|e| e.to_string())))), json!(null));
                    continue;
                }
            };
            let run = run_bound(&tc_, &sigs, &script, &RunOpts { max_steps: 400, probe_after_end: 0, stop_at_error: true, seed: Some(1), continue_on: None });
            acc.evaluations += 1;
            let mut fails = 0;
            let mut rows = 0;
            for st in &run.3 {
                match &st.item {
                    RealItem::Row(r) => {
                        rows += 1;
                        for o in &r.outputs {
                            if o.4 {
                                checked += 1;
                                if !o.3 {
                                    fails += 1;
                                }
                            }
                        }
                    }
                    RealItem::End => {}
                    other => acc.violation(0, "fixture", Finding::new("fixture-item", format!("{name}: {other:?}")), json!(null)),
                }
            }
            if must_pass && fails > 0 {
                acc.violation(0, "fixture", Finding::new("fixture-counter-fails", format!("test {name} of Counter.dig against the behavioural model of Counter.v: {fails} checked entries fail")), json!(null));
            }
            // the reference on the hand-built model of the same program must prescribe the same history
            let case = Case {
                program: Program { header: header.clone(), items },
                signals: sigs.clone(),
                script: script.clone(),
                layout_opts: crate::pp::Layout::plain(),
                rng_seed: 1,
            };
            if let Some(ran) = standard_run(&case, acc, None) {
                let f = first_some(vec![accepted(&ran.real), diff_items(&ran.pr, &ran.rf, &ran.real, Aspects::all()), protocol(&ran.rf, &ran.real)]);
                if let Some(f) = f {
                    acc.violation(0, "fixture", f, case_json(&case, &ran.pr));
                }
                // and it is the same history as the fixture's own text produced
                let a: Vec<&RealItem> = run.3.iter().map(|s| &s.item).collect();
                let b: Vec<&RealItem> = ran.real.steps.iter().map(|s| &s.item).take(a.len()).collect();
                let same = a.len() <= ran.real.steps.len()
                    && a.iter().zip(&b).all(|(x, y)| match (x, y) {
                        (RealItem::Row(p), RealItem::Row(q)) => p.inputs == q.inputs && p.outputs == q.outputs,
                        (p, q) => p == q,
                    });
                if !same {
                    acc.violation(0, "fixture", Finding::new("fixture-model-differs", format!("hand-built model of {name} and the fixture text give different histories")), json!(null));
                }
            }
            report.push(json!({"test": name, "driver_overrides_write_input": over, "rows": rows, "failing_entries": fails}));
        }
        // the Failing test must fail
        if let Ok(Ok(t)) = guarded(|| file.load_test_by_name("Failing")) {
            let run = run_bound(&t, &sigs, &script, &RunOpts { max_steps: 400, probe_after_end: 0, stop_at_error: true, seed: Some(1), continue_on: None });
            let fails: usize = run.3.iter().map(|s| if let RealItem::Row(r) = &s.item { r.failing.len() } else { 0 }).sum();
            if fails == 0 {
                acc.violation(0, "fixture", Finding::new("fixture-failing-passes", "test Failing of Counter.dig passes against the behavioural model"), json!(null));
            }
            report.push(json!({"test": "Failing", "failing_entries": fails}));
        }
    }
    acc.event("fixture_checked_entries", checked);
    json!({"counter_fixture": report})
}
