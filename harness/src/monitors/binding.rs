//! C11 — binding succeeds exactly when test and signal list fit together; accepted tests iterate.

use super::*;
use crate::gen;
use crate::prng::Prng;
use crate::scope;

pub const META_C11: Meta = Meta {
    id: "C11",
    level: "exploration",
    rule: "Start from a fitting (program, signal list) pair of profile `binding` and apply 0-3 perturbations drawn from: remove / duplicate / rename a signal, change its direction, add extras (incl. an input literally named `<bidirectional>_out`), declare a virtual signal named like a real one, put C into an arbitrary column (output, virtual, `_out`, input), make an expression read an input / a virtual signal (declared by the program, or one that came with the signal list) / an undeclared name, rename a header column to `<x>_out`, and scoping traps (variable bound only inside a loop and read after it, let inside while then read outside, read before let in the same loop body, loop bound reading its own counter, `n` read in a repeat bound). An independent judgement fits(model, signals) written from the statement of C11 decides what must happen; required: with_signals is Ok iff fits, and never panics. For every accepted pair the test is then iterated to the end against a device supplying every output-capable signal: a panic, a missing-outputs error or any disagreement with the reference row stream is a violation. Non-trivial = >= 1 perturbation or scoping trap applied; the evidence reports the 2x2 table fits x accepted (off-diagonal must be empty, both diagonal cells populated).",
    assumptions: &["fits() in harness/src/scope.rs is the trusted judgement (60 lines, parse-time scope rule as stated in C11)"],
    quick_cases: 150000,
    thorough_cases: 3000000,
    floor: 12000,
};

fn exprs_mut<'a>(items: &'a mut [Item], out: &mut Vec<&'a mut Expr>) {
    for it in items {
        match it {
            Item::Let(_, e) => out.push(e),
            Item::Declare(..) => {}
            Item::Row(_, es) => {
                for e in es {
                    if let Entry::Paren(x) | Entry::Bits(_, x) = e {
                        out.push(x)
                    }
                }
            }
            Item::Repeat(_, b, es) => {
                out.push(b);
                for e in es {
                    if let Entry::Paren(x) | Entry::Bits(_, x) = e {
                        out.push(x)
                    }
                }
            }
            Item::Loop(_, b, inner) => {
                out.push(b);
                exprs_mut(inner, out)
            }
            Item::While(c, inner) => {
                out.push(c);
                exprs_mut(inner, out)
            }
            _ => {}
        }
    }
}

fn rows_mut<'a>(items: &'a mut [Item], out: &mut Vec<&'a mut Vec<Entry>>) {
    for it in items {
        match it {
            Item::Row(_, es) | Item::Repeat(_, _, es) => out.push(es),
            Item::Loop(_, _, inner) | Item::While(_, inner) => rows_mut(inner, out),
            _ => {}
        }
    }
}

fn fresh_row(case: &Case, r: &mut Prng, ident: Option<&str>) -> Vec<Entry> {
    // a simple row: literals everywhere, optionally one expression entry reading `ident`
    let n = case.program.header.len();
    let at = r.below(n);
    (0..n)
        .map(|c| match ident {
            Some(id) if c == at => Entry::Paren(Expr::Ident(id.to_string())),
            _ => Entry::Lit(r.range(0, 1), Radix::Dec),
        })
        .collect()
}

fn perturb(case: &mut Case, r: &mut Prng) -> &'static str {
    let n_sig = case.signals.len();
    match r.below(19) {
        17 | 18 => {
            // a declaration that reads a name which is a VARIABLE at that point (declarations see
            // no variables: it reads the output of that name, which must then exist), placed
            // right after an ordinary expression has read the same name as a variable
            let lets: Vec<(usize, String)> = case
                .program
                .items
                .iter()
                .enumerate()
                .filter_map(|(i, it)| if let Item::Let(n, _) = it { Some((i, n.clone())) } else { None })
                .collect();
            let (at, name) = if lets.is_empty() || r.chance(1, 3) {
                case.program.items.insert(0, Item::Let("dvv".into(), Expr::Num(3, Radix::Dec)));
                (0, "dvv".to_string())
            } else {
                r.pick(&lets).clone()
            };
            if !gen::is_identlike(&name) || case.program.declares().iter().any(|d| d.0 == "dv") {
                return "noop";
            }
            let row = fresh_row(case, r, Some(&name));
            case.program.items.insert(at + 1, Item::Row(9100, row));
            case.program.items.insert(
                at + 2,
                Item::Declare("dv".into(), Expr::Bin(BinOp::Add, Box::new(Expr::Ident(name)), Box::new(Expr::Num(1, Radix::Dec)))),
            );
            "declare_reads_a_name_that_is_a_variable_there"
        }
        0 if n_sig > 0 => {
            let i = r.below(n_sig);
            case.signals.remove(i);
            "remove_signal"
        }
        1 if n_sig > 0 => {
            let mut s = case.signals[r.below(n_sig)].clone();
            if r.chance(1, 2) {
                s.kind = SigKind::Out;
            }
            let at = r.below(n_sig + 1);
            case.signals.insert(at, s);
            "duplicate_signal"
        }
        2 if n_sig > 0 => {
            let i = r.below(n_sig);
            let other = case.signals[r.below(n_sig)].name.clone();
            case.signals[i].name = if r.chance(1, 2) { "zz9".into() } else { format!("{other}_out") };
            "rename_signal"
        }
        3 if n_sig > 0 => {
            let i = r.below(n_sig);
            let d = InVal::V(0);
            case.signals[i].kind = match (&case.signals[i].kind, r.below(2)) {
                (SigKind::In(_), 0) => SigKind::Out,
                (SigKind::In(v), _) => SigKind::Bidir(*v),
                (SigKind::Out, 0) => SigKind::In(d),
                (SigKind::Out, _) => SigKind::Bidir(d),
                (SigKind::Bidir(v), 0) => SigKind::In(*v),
                (SigKind::Bidir(_), _) => SigKind::Out,
                (SigKind::Virtual(_), _) => SigKind::Out,
            };
            "change_direction"
        }
        4 => {
            let kind = match r.below(3) {
                0 => SigKind::In(InVal::V(1)),
                1 => SigKind::Out,
                _ => SigKind::Bidir(InVal::Z),
            };
            case.signals.push(Sig { name: format!("extra{}", r.below(3)), bits: 1 + r.below(8), kind });
            "add_extra_signal"
        }
        5 => {
            // an input literally named <bidirectional>_out (legal; the column is then both)
            if let Some(b) = case.signals.iter().find(|s| matches!(s.kind, SigKind::Bidir(_))).map(|s| s.name.clone()) {
                case.signals.push(Sig { name: format!("{b}_out"), bits: 4, kind: SigKind::In(InVal::V(0)) });
                "add_input_named_like_out_column"
            } else {
                "noop"
            }
        }
        6 if n_sig > 0 => {
            let name = case.signals[r.below(n_sig)].name.clone();
            if gen::is_identlike(&name) && !case.program.declares().iter().any(|d| d.0 == name) {
                let at = r.below(case.program.items.len() + 1);
                case.program.items.insert(at, Item::Declare(name, Expr::Num(1, Radix::Dec)));
                "declare_named_like_signal"
            } else {
                "noop"
            }
        }
        7 | 8 => {
            let mut rows = vec![];
            rows_mut(&mut case.program.items, &mut rows);
            if rows.is_empty() {
                return "noop";
            }
            let i = r.below(rows.len());
            let row = &mut *rows[i];
            let j = r.below(row.len());
            if row[j].width() == 1 {
                row[j] = Entry::C(r.chance(1, 4));
                "c_in_random_column"
            } else {
                "noop"
            }
        }
        9 | 10 => {
            let target = match r.below(5) {
                // a virtual signal that came with the signal list (not declared by this program)
                4 => case.signals.iter().find(|s| matches!(s.kind, SigKind::Virtual(_))).map(|s| s.name.clone()),
                0 => case.signals.iter().find(|s| matches!(s.kind, SigKind::In(_))).map(|s| s.name.clone()),
                1 => case.program.declares().first().map(|d| d.0.to_string()),
                2 => Some("nope".to_string()),
                _ => case.signals.iter().find(|s| s.is_output()).map(|s| s.name.clone()),
            };
            let Some(t) = target else { return "noop" };
            if !gen::is_identlike(&t) {
                return "noop";
            }
            let mut ex = vec![];
            exprs_mut(&mut case.program.items, &mut ex);
            if ex.is_empty() {
                let row = fresh_row(case, r, Some(&t));
                case.program.items.push(Item::Row(9000, row));
            } else {
                let i = r.below(ex.len());
                *ex[i] = Expr::Bin(BinOp::Add, Box::new(ex[i].clone()), Box::new(Expr::Ident(t)));
            }
            "read_input_virtual_or_unknown"
        }
        11 => {
            // variable bound only inside a loop, read after the loop
            let name = if r.chance(1, 2) { "ZZ".to_string() } else { case.signals.iter().find(|s| s.is_output() && gen::is_identlike(&s.name)).map(|s| s.name.clone()).unwrap_or("ZZ".into()) };
            let row = fresh_row(case, r, Some(&name));
            case.program.items.push(Item::Loop("i".into(), Expr::Num(2, Radix::Dec), vec![Item::Let(name, Expr::Num(1, Radix::Dec))]));
            case.program.items.push(Item::Row(9001, row));
            "trap_loop_scoped_variable_read_after_loop"
        }
        12 => {
            let row = fresh_row(case, r, Some("WW"));
            case.program.items.push(Item::Let("wc".into(), Expr::Num(1, Radix::Dec)));
            case.program.items.push(Item::While(
                Expr::Ident("wc".into()),
                vec![Item::Let("WW".into(), Expr::Num(3, Radix::Dec)), Item::Let("wc".into(), Expr::Num(0, Radix::Dec))],
            ));
            case.program.items.push(Item::Row(9002, row));
            "trap_let_inside_while_read_outside"
        }
        13 => {
            let row = fresh_row(case, r, Some("RB"));
            case.program.items.push(Item::Loop("i".into(), Expr::Num(2, Radix::Dec), vec![Item::Row(9003, row), Item::Let("RB".into(), Expr::Num(1, Radix::Dec))]));
            "trap_read_before_let_in_loop_body"
        }
        14 => {
            let k = if r.chance(1, 2) { "k".to_string() } else { case.signals.iter().find(|s| s.is_output() && gen::is_identlike(&s.name)).map(|s| s.name.clone()).unwrap_or("k".into()) };
            let row = fresh_row(case, r, None);
            case.program.items.push(Item::Loop(
                k.clone(),
                Expr::Bin(BinOp::And, Box::new(Expr::Ident(k)), Box::new(Expr::Num(1, Radix::Dec))),
                vec![Item::Row(9004, row)],
            ));
            "trap_loop_bound_reads_own_counter"
        }
        15 => {
            let row = fresh_row(case, r, Some("n"));
            case.program.items.push(Item::Repeat(9005, Expr::Bin(BinOp::And, Box::new(Expr::Ident("n".into())), Box::new(Expr::Num(1, Radix::Dec))), row));
            "trap_n_read_in_repeat_bound"
        }
        16 => {
            let n = case.program.header.len();
            let i = r.below(n);
            let base = case.program.header[i].trim_end_matches("_out").to_string();
            let new = format!("{base}_out");
            if !case.program.header.contains(&new) {
                case.program.header[i] = new;
                "header_column_renamed_to_out_form"
            } else {
                "noop"
            }
        }
        _ => "noop",
    }
}

pub fn c11(case_seed: u64, acc: &mut Acc) {
    let mut r = Prng::new(case_seed);
    let mut cfg = super::dynamic::profile_binding();
    cfg.reads = 250;
    cfg.w_in = [55, 25, 4, 4, 12];
    cfg.max_depth = 3;
    let mut case = gen::generate(&mut r, &cfg);
    let n_pert = *r.pick(&[0, 1, 1, 1, 2, 2, 3]);
    let mut applied = vec![];
    for _ in 0..n_pert {
        let t = perturb(&mut case, &mut r);
        if t != "noop" {
            applied.push(t);
        }
    }
    renumber(&mut case.program.items, &mut 0);
    // the device supplies every output-capable signal
    case.script.layout = (0..case.signals.len()).filter(|&i| case.signals[i].is_output()).collect();
    case.script.faults.clear();
    if !matches!(case.script.values, ValueFn::Unique { .. } | ValueFn::Small { .. }) {
        case.script.values = ValueFn::Unique { salt: case_seed, narrow: false };
    }
    acc.cases += 1;
    let info = scope::analyse(&case.program);
    if info.bad_row_width {
        acc.inconclusive("perturbation changed a row width (harness)");
        return;
    }
    let verdict = scope::fits(&case.program, &case.signals);
    let pr = pp::print(&case.program, &case.layout_opts);
    let h = case_hash(&case, &pr);
    acc.distinct.insert(h);
    let (ps, parsed) = parse(&pr.text);
    let Some(parsed) = parsed else {
        match ps {
            Stage::Panic(p) => acc.violation(case_seed, "gen", Finding::new(p.signature(), format!("parse panic {p:?}")), case_json(&case, &pr)),
            other => acc.violation(case_seed, "gen", Finding::new("rejected-valid-program:parse", format!("{other:?}")), case_json(&case, &pr)),
        }
        return;
    };
    let (bs, tc) = bind(parsed, &case.signals);
    acc.evaluations += 1;
    let f = match (&verdict, &bs) {
        (_, Stage::Panic(p)) => Some(Finding::new(p.signature(), format!("with_signals panicked: {p:?}"))),
        (Ok(()), Stage::Ok) => {
            acc.tag("table:fits_and_accepted");
            None
        }
        (Err(_), Stage::Err { .. }) => {
            acc.tag("table:misfit_and_rejected");
            None
        }
        (Ok(()), Stage::Err { text, .. }) => Some(Finding::new("fitting-pair-rejected", format!("fits() says the pair fits, with_signals returned: {text}"))),
        (Err(why), Stage::Ok) => Some(Finding::new("misfit-accepted", format!("with_signals accepted a pair that does not fit: {why}"))),
        (_, Stage::NotReached) => Some(Finding::new("harness", "bind not reached")),
    };
    if let Some(f) = f {
        acc.violation(case_seed, "gen", f, json!({"case": case_json(&case, &pr), "perturbations": applied}));
        return;
    }
    // accepted => can always be iterated
    if tc.is_some() {
        let both = case.signals.iter().any(|s| {
            s.is_input() && s.name.ends_with("_out") && case.signals.iter().any(|b| matches!(b.kind, SigKind::Bidir(_)) && format!("{}_out", b.name) == s.name)
        });
        if let Some(ran) = standard_run(&case, acc, None) {
            let mut f = first_some(vec![no_panic(&ran.real), accepted(&ran.real)]);
            if f.is_none() {
                // a constructor-time runtime error would be a missing-outputs complaint: the
                // device supplies everything, so that is attributable to a bind-time mismatch
                if let Construct::ErrRuntime(e) = &ran.real.construct {
                    f = Some(Finding::new("accepted-but-constructor-fails", e.clone()));
                }
            }
            if f.is_none() {
                f = diff_items(&ran.pr, &ran.rf, &ran.real, Aspects::rows());
            }
            if both {
                acc.tag("column_is_both_input_and_expected");
            }
            if let Some(f) = f {
                acc.violation(case_seed, "gen", f, json!({"case": case_json(&case, &pr), "perturbations": applied}));
                return;
            }
            acc.event("accepted_pairs_iterated_to_the_end", 1);
        }
    }
    acc.held += 1;
    for t in &applied {
        acc.tag(t);
    }
    if !applied.is_empty() {
        acc.nontrivial.insert(h);
        acc.sample(|| json!({"text": pr.text, "signals": case.signals.iter().map(|s| format!("{}:{}:{:?}", s.name, s.bits, s.kind)).collect::<Vec<_>>(), "perturbations": applied, "fits": verdict.is_ok()}));
    }
}
