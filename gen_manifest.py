#!/usr/bin/env python3
"""Regenerates MANIFEST.json from the table below (kept as code so it stays consistent)."""
import json, subprocess
HOOK_COMMITS = ["d82671b"]
DIFF = "runtime monitoring: boundary history (driver calls, next() items, vars) vs executable reference model"
NOTE = "Trusted: reference interpreter (harness/src/refint.rs), generator/printer, scripted device. Both dev (overflow checks on) and release builds of the crate are exercised; evidence counts both."
def T(what):
    return what + " Held on the executions observed (counts in the evidence file); not a proof."
CHECKS = {
 "C01": dict(level="exploration", design="3/C01", technique=DIFF + " (differential oracle over the whole row stream; part of the case space is an enumerated program grammar)", note=NOTE,
   text=T("The crate's complete row stream (line, input values, expected values, end) is compared with the stream prescribed by an independent reference interpreter on 150k (quick) / 2M (thorough) generated programs per build profile, plus the complete enumeration of a loop/while/repeat/let program grammar of depth <= 2 (100 338 programs in quick, 4.4M in thorough) for which vars() is compared as well.")),
 "C02": dict(level="exploration", design="3/C02", technique="runtime monitoring: online protocol checker over the recorded driver-call log, evaluated after every next(); metamorphic re-runs through iterator adaptors (nth, skip, step_by, count, last, collect, fold, find ...) and through a driver type that leaves write_input to the trait default", note=NOTE,
   text=T("A recording TestDriver logs every call before answering; after every step an online oracle checks one-call-per-row, verbatim inputs, call kind (output-reading vs write_input), laziness, silence after End and full accounting of the log, with and without injected driver errors and with both driver variants.")),
 "C03": dict(level="exploration", design="3/C03", technique="runtime monitoring: per-row attribution oracle over unique device answers + exhaustive verdict table", note=NOTE,
   text=T("For every checked row the oracle recomputes each reported output from the recorded answer of that very call (unique values per call and signal, random subset/permutation layouts, Z/X/boundary values) and checks check()/is_checked()/failing_outputs() against the stated X/Z rules; the 37x37 value table of check() is enumerated.")),
 "C04": dict(level="exploration", design="3/C04", technique=DIFF + " with feedback devices and unique answers (staleness visible); anchored by a behavioural model of the repo's Counter fixture", note=NOTE,
   text=T("Programs reading device outputs at every expression site are run against devices whose every answer is unique; device-side vectors and expected values must equal those the reference computes from the latest output-reading call; Z/X reads and missing outputs must surface as the stated errors. The repo's own Counter.dig tests are also run against a behavioural model of Counter.v (every checked entry must pass, the Failing test must fail, and the reference must prescribe the same history).")),
 "C05": dict(level="exploration", design="3/C05", technique=DIFF + " (expansion order oracle) + enumeration of all short rows over {0,1,X,C,Z}", note=NOTE,
   text=T("The observed row/call sequence of rows containing C and X is compared with the documented expansion (leftmost X fastest, 0 first; clock triple 0,1,0 with only the last row checked) on generated programs and on all rows of width <= 4 over {0,1,X,C,Z} for three configurations.")),
 "C06": dict(level="exploration", design="3/C06", technique="runtime monitoring: structural oracle from header+signal list, `changed` checked against the recorded previous device vector", note=NOTE,
   text=T("Random signal lists and headers (subsets, permutations, split bidirectional pairs): every row must be a complete vector in signal-list order with values bound by header name; changed==false must imply equality with the previous vector the driver received.")),
 "C07": dict(level="exploration", design="3/C07", technique="runtime monitoring: direct u128 oracle over an enumerated width x value x path x entry-form product", note="Oracle is a three-line u128 mask, independent of the reference interpreter. " + NOTE,
   text=T("Every width 1..=64 x ~420 boundary values x 5 paths x 4 entry forms is executed through the real crate and the value seen by the device / in `expected` is compared with v mod 2^bits; plus randomised wide-signal programs against the reference.")),
 "C08": dict(level="exploration", design="3/C08", technique="runtime monitoring: tree-as-ground-truth differential (text printed from tree with the stated precedence table, minimal and redundant parentheses, three public views of each value)", note=NOTE,
   text=T("Random and enumerated expression trees are printed with the C08 precedence table and their full i64 value is observed through vars(), a 64-bit expected column and a virtual-signal column, in both parenthesisations, and compared with a wrapping reference evaluator of the tree.")),
 "C10": dict(level="exploration", design="3/C10", technique="runtime monitoring: catch_unwind sentinel at every API stage over hazard-seeded programs + reference-prescribed error items", note=NOTE,
   text=T("Hazard-seeded accepted programs (zero divisors, MIN/-1, overflow, wild shift counts, random(<2), signExt, maybe-unassigned variables, 63/64-bit signals, Z/X answers, driver errors) are run dynamically and statically under catch_unwind; no stage may panic and each hazard the reference reaches must be an error item.")),
 "C14": dict(level="exploration", design="3/C14", technique=DIFF + " restricted to virtual-signal entries, with same-named variables in scope", note=NOTE,
   text=T("Declared virtual signals (1-4, placed anywhere) are checked in every checked row against the reference's evaluation of the declared expression over that call's unique answers with variables invisible; Z/X operands must give an error item; vars() must survive the swap.")),
 "C17": dict(level="exploration", design="3/C17", technique="runtime monitoring: hook-recorded draw log checked by replay (accounting), range, reset-prefix, same-seed and static-run oracles", note="Needs the verif-hooks feature (seed override + draw log). " + NOTE,
   text=T("Every generator call made by random(n) is logged by a hook; the reference replays the log (each evaluation must find exactly its own draw, the log must be consumed exactly, rows must equal those of the literal-substituted program), ranges, reset replay and same-seed determinism are checked.")),
 "C09": dict(level="exploration", design="3/C09", technique="runtime monitoring: catch_unwind + span/render oracle over hostile strings (token soup, mutated programs, every-boundary truncation, structured edge cases)", note="Oracle needs no model: it checks the returned value itself (span bounds, char boundaries, renderability). " + NOTE,
   text=T("Hundreds of thousands of hostile strings are parsed under catch_unwind; any panic, any error span outside the text or off a char boundary, and any failure to render the diagnostic with miette is reported with the exact string.")),
 "C11": dict(level="exploration", design="3/C11", technique="runtime monitoring: independent fits() judgement vs with_signals verdict on perturbed pairs, then full iteration of every accepted pair against the reference", note="Trusted: fits() in harness/src/scope.rs (written from the statement of C11). " + NOTE,
   text=T("Fitting pairs are perturbed (signal list edits, direction changes, C in arbitrary columns, reads of inputs/virtual/undeclared names, scoping traps); with_signals must accept exactly the pairs the independent judgement says fit, never panic, and every accepted pair must iterate to the end in agreement with the reference.")),
 "C12": dict(level="exploration", design="3/C12", technique="runtime monitoring: mutation-based negative oracle (invalid by construction AND rejected by an independent recogniser => crate must return Err)", note="Trusted: refparse.rs recogniser and reflex.rs tokenizer. " + NOTE,
   text=T("Every applicable single grammar-breaking edit (16 operators plus duplicated names in wide headers and duplicated long names, 3 endings, LF/CRLF) of generated valid programs is fed to the parser; a mutant confirmed invalid by an independent recogniser must be rejected.")),
 "C13": dict(level="fault_enumeration", design="3/C13", technique="runtime monitoring with per-case fault enumeration: Err at every call index, every layout-deviation kind at every checked call, compared item by item with the recorded fault-free run", note=NOTE,
   text=T("For each sampled case the fault-free history is recorded, then every call index x driver error and every checked call x {drop, add unknown, add input, duplicate, swap, substitute} is executed; the prefix must equal the fault-free run, the owning item must be the right kind of error carrying the injected identity, and no returned row may misattribute a value.")),
 "C15": dict(level="exploration", design="3/C15", technique="runtime monitoring: repeated parses, repeated / abandoned / interleaved iterators under explicit schedules, history independence (a second device, a public field changed after iteration), static-vs-dynamic projection against 5 devices incl. a refusing one, cross-process digest comparison", note="Programs using random run with the seed pinned through the verif-hooks feature. " + NOTE,
   text=T("Per case: 6 parses must give equal TestCases with equal signal order; 3 iterations and 2-4 interleaved iterators (round-robin, sequential, PRNG schedules) must give identical streams; try_iter_static must succeed iff the model reads no outputs and then equal the projection of 4 dynamic runs; digests are compared between two separate processes.")),
 "C16": dict(level="exploration", design="3/C16", technique="runtime monitoring: description-as-ground-truth round trip through generated .dig XML (parse, FromStr, open incl. a re-written path) + totality under document corruption (catch_unwind)", note="Trusted: xmlgen.rs renderer and the expectation function in monitors/digfile.rs (written from the statement of C16). " + NOTE,
   text=T("Generated circuit descriptions are rendered to .dig XML in varied styles and must be recovered exactly (signals as a multiset, bidirectional inference rule, tests verbatim in order, load_test / load_test_by_name equivalences and error cases); six corruptions per document and truncations of the repo fixtures must never panic.")),
 "C19": dict(level="exploration", design="3/C19", technique=DIFF + " restricted to DataRow.line, with the printer's recorded line numbers as ground truth; also through .dig documents and the static iterator", note=NOTE,
   text=T("The printer records the line of every row item under hostile layouts (leading blank lines, comment and blank lines, CRLF/mixed endings, no trailing newline); every yielded row must report the line of the item the reference says produced it, also when the test is loaded from a generated .dig document or iterated statically.")),
 "C20": dict(level="exploration", design="3/C20", technique="runtime monitoring: metamorphic oracle over certified layout-only rewrites (token sequence re-checked by an independent tokenizer) and over radix families of one number", note="Trusted: reflex.rs tokenizer certifies that a rewrite keeps the token sequence. " + NOTE,
   text=T("Each base text is re-laid-out (blank runs, certified blank deletion, comments, inserted lines, CRLF, literal radix) and both texts are run against the same device; verdicts and every item must agree, lines shifted by exactly the inserted lines.")),
 "C18": dict(level="exploration", design="3/C18", technique=DIFF + " on vars() sampled after every yielded row, plus a text-only scope oracle where the reference abstains", note=NOTE,
   text=T("vars() is sampled after every row of deeply nested, heavily shadowing programs and must equal the flattened frame stack of the reference at the moment the row's statement was evaluated.")),
}
ALL = ["C%02d" % i for i in range(1, 21)]
def main():
    full = [subprocess.run(["git", "-C", "/repo", "rev-parse", c], capture_output=True, text=True).stdout.strip() for c in HOOK_COMMITS]
    m = dict(version=1, setup_cmd="./check --setup",
      hooks=dict(guard="cargo feature `verif-hooks` of digital_test_runner (off by default)",
                 enable="the harness crate /verif/harness depends on /repo by path with features=[\"verif-hooks\"]; ./check rebuilds it (dev and release) from /repo's working tree on every run",
                 baseline_off_cmd="cd /repo && cargo test --workspace --no-fail-fast --offline",
                 source_commits=full, add_only=True),
      engines=[dict(name="dtrmon", path="harness/", serves_properties=sorted(CHECKS), kind_free_text="Rust harness: case generator, scripted recording TestDriver, reference interpreter, per-property monitors; orchestrated by ./check (build, 16 shards over dev+release builds, merge, known-findings filter, evidence)")],
      checks=[], notes="See DESIGN.md. Exit codes of ./check: 0 held, 1 violation, 2 observed too little, 3 harness/build error.",
      not_applicable=[])
    for pid in ALL:
        if pid in CHECKS:
            c = CHECKS[pid]
            m["checks"].append(dict(property_id=pid, quick_cmd="./check %s quick" % pid, thorough_cmd="./check %s thorough" % pid,
              evidence_file="evidence/%s.json" % pid, replay_cmd_template="./check %s --replay {path}" % pid, engine="dtrmon",
              level_claimed=dict(category=c["level"], text=c["text"], design_ref=c["design"]), level_note=c["note"], technique=c["technique"]))
        else:
            m["not_applicable"].append(dict(property_id=pid, reason="monitor designed (DESIGN.md section 3) but not yet built in this round; not claimed until its check exists"))
    json.dump(m, open("/verif/MANIFEST.json", "w"), indent=1)
main()
