#!/usr/bin/env python3
"""Regenerates MANIFEST.json from the table below (kept as code so it stays consistent)."""
import json, subprocess
HOOK_COMMITS = ["d82671b"]
CHECKS = {
 "C01": dict(level="exploration", design="3/C01",
   text="Differential runtime monitor: the crate's complete row stream (line, input values, expected values, end) is compared with the stream prescribed by an independent reference interpreter on ~30k (quick) / 1.5M (thorough) generated programs per build profile plus an enumerated small space of loop nests with bounds in {-1,0,1,2}. Held on the executions observed; not a proof.",
   note="Trusted: reference interpreter (refint.rs), generator/printer, scripted device. Both dev (overflow checks) and release builds of the crate are exercised.",
   technique="runtime monitoring: boundary history vs executable reference model (differential oracle)"),
}
ALL = ["C%02d" % i for i in range(1, 21)]
def main():
    full = [subprocess.run(["git", "-C", "/repo", "rev-parse", c], capture_output=True, text=True).stdout.strip() for c in HOOK_COMMITS]
    m = dict(version=1, setup_cmd="./check --setup",
      hooks=dict(guard="cargo feature `verif-hooks` of digital_test_runner (off by default)",
                 enable="the harness crate /verif/harness depends on /repo by path with features=[\"verif-hooks\"]; ./check rebuilds it (dev and release) from /repo's working tree on every run",
                 baseline_off_cmd="cd /repo && cargo test --workspace --no-fail-fast --offline",
                 source_commits=full, add_only=True),
      engines=[dict(name="dtrmon", path="harness/", serves_properties=sorted(CHECKS), kind_free_text="Rust harness: case generator, scripted recording TestDriver, reference interpreter, per-property monitors; orchestrated by ./check (build, 16 shards over dev+release builds, merge, known-findings filter, evidence)")],
      checks=[], notes="See DESIGN.md. Exit codes of ./check: 0 held, 1 violation, 2 observed too little, 3 harness/build error.",
      not_applicable=[])
    for pid in ALL:
        if pid in CHECKS:
            c = CHECKS[pid]
            m["checks"].append(dict(property_id=pid, quick_cmd="./check %s quick" % pid, thorough_cmd="./check %s thorough" % pid,
              evidence_file="evidence/%s.json" % pid, replay_cmd_template="./check %s --replay {path}" % pid, engine="dtrmon",
              level_claimed=dict(category=c["level"], text=c["text"], design_ref=c["design"]), level_note=c["note"], technique=c["technique"]))
        else:
            m["not_applicable"].append(dict(property_id=pid, reason="monitor designed (DESIGN.md section 3) but not yet built in this round; not claimed until its check exists"))
    json.dump(m, open("/verif/MANIFEST.json", "w"), indent=1)
main()
